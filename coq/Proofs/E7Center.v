(* The centre fields of an extract's header: int32(((a + b) / 2) * 1e7) in binary64, for a and b decimal literals with at most
   seven decimals, is within one E7 unit of the exact midpoint (a half-integer number of units). *)
From Flocq Require Import Core IEEE754.BinarySingleNaN IEEE754.Binary IEEE754.Bits.
From Coq Require Import Reals Lra Lia ZArith Psatz.
From PM Require Import Model.F64 Model.Region Proofs.E7 Proofs.E7Glue.
Open Scope R_scope.

Lemma p53 : bpow radix2 (-53) <= / 9000000000000000.
Proof. simpl. unfold Z.pow_pos; simpl. lra. Qed.
Lemma pmin : bpow radix2 (-1022) <= / 100000000000000000000.
Proof. apply Rle_trans with (bpow radix2 (-70)). apply bpow_le; lia. simpl. unfold Z.pow_pos; simpl. lra. Qed.
(* rounding moves a value of magnitude at most M by at most M * 2^-53 (also through zero and the subnormal range) *)
Lemma rnd_err (x M:R) : Rabs x <= M -> 1 <= M -> Rabs (rnd x - x) <= M / 9000000000000000.
Proof.
  intros Hx HM. destruct (Rle_lt_dec (bpow radix2 (-1022)) (Rabs x)) as [Hn|Hs].
  - pose proof (rnd_close x Hn) as C. pose proof p53. pose proof (Rabs_pos x). apply Rle_trans with (1 := C). nra.
  - (* subnormal: the error is below the smallest normal *)
    assert (Rabs (rnd x) <= bpow radix2 (-1022)) by (apply rnd_le_pow; [lia|lra]).
    pose proof pmin. pose proof (Rabs_triang (rnd x) (- x)) as T. rewrite Rabs_Ropp in T.
    replace (rnd x - x) with (rnd x + - x) by ring. apply Rle_trans with (1 := T). lra.
Qed.

(* strconv's correctly rounded parse of m / 10^k *)
Lemma dec_to_f64_correct (m:Z) (k:nat) : (k <= 7)%nat -> let N := (m * 10 ^ (7 - Z.of_nat k))%Z in
  (- 2^31 + 1 < N < 2^31 - 1)%Z -> R64 (dec_to_f64 m k) = rnd (IZR N / 10000000) /\ fin (dec_to_f64 m k) = true.
Proof.
  intros Hk N HN.
  set (P := (10 ^ Z.of_nat k)%Z).
  assert (HP : (1 <= P <= 10000000)%Z).
  { unfold P. split; [pose proof (Z.pow_pos_nonneg 10 (Z.of_nat k)); lia|]. change 10000000%Z with (10^7)%Z. apply Z.pow_le_mono_r; lia. }
  assert (HPN : (P * 10 ^ (7 - Z.of_nat k) = 10000000)%Z).
  { unfold P. rewrite <- Z.pow_add_r by lia. replace (Z.of_nat k + (7 - Z.of_nat k))%Z with 7%Z by lia. reflexivity. }
  assert (HQ : (1 <= 10 ^ (7 - Z.of_nat k))%Z) by (pose proof (Z.pow_pos_nonneg 10 (7 - Z.of_nat k)); lia).
  assert (HmP : (Z.abs m < 2^53)%Z).
  { assert (Z.abs m <= Z.abs N)%Z; [|lia]. unfold N. rewrite Z.abs_mul, (Z.abs_eq (10 ^ _)) by lia. nia. }
  destruct (of_Z_correct m HmP) as [Hx Hxf].
  destruct (of_Z_correct P) as [Hy _]; [lia|].
  assert (HPR : 1 <= IZR P) by (apply IZR_le; lia).
  assert (Heq : IZR m / IZR P = IZR N / 10000000).
  { unfold N. rewrite mult_IZR. change 10000000 with (IZR 10000000). rewrite <- HPN, mult_IZR.
    assert (1 <= IZR (10 ^ (7 - Z.of_nat k))) by (apply IZR_le; exact HQ). field. lra. }
  assert (HNR : Rabs (IZR N) <= 2147483648).
  { rewrite <- abs_IZR. apply IZR_le. change (2^31)%Z with 2147483648%Z in HN. lia. }
  destruct (div_correct_gen (f64_of_Z m) (f64_of_Z P) _ _ Hx Hy) as [Hq Hqf]; [lra|exact Hxf| |].
  { rewrite Heq. unfold Rdiv. rewrite Rabs_mult, (Rabs_pos_eq (/10000000)) by lra. change (bpow radix2 8) with 256. lra. }
  fold (dec_to_f64 m k) in Hq, Hqf. rewrite Heq in Hq. split; assumption.
Qed.

Lemma add_correct (x y:f64) : fin x = true -> fin y = true -> Rabs (R64 x + R64 y) <= bpow radix2 10 ->
  R64 (f64_add x y) = rnd (R64 x + R64 y) /\ fin (f64_add x y) = true.
Proof.
  intros Hx Hy Hb. unfold f64_add, b64_plus.
  match goal with |- context [Bplus 53 1024 ?a ?b ?c ?m x y] =>
    pose proof (Bplus_correct 53 1024 a b c m x y Hx Hy) as C end.
  rewrite round_is_rnd in C.
  rewrite (lt_emax (rnd (R64 x + R64 y)) 10) in C; [|lia|apply rnd_le_pow; [lia|exact Hb]].
  destruct C as [C1 [C2 _]]. split; assumption.
Qed.

(* int32(f * 1e7) for a finite f close to x, |x| * 1e7 inside int32 with a margin of 3: within 1 + 1/1000 of x * 1e7 *)
Lemma trunc_e7_close (f:f64) (x:R) : fin f = true -> Rabs (R64 f - x) <= / 1000000000000 -> Rabs (x * 10000000) <= 2147483646 ->
  Rabs (IZR (to_e7_pinned f) - x * 10000000) < 1 + / 1000.
Proof.
  intros Hf Hc Hx.
  assert (Hfa : Rabs (R64 f) <= 215).
  { replace (R64 f) with ((R64 f - x) + x) by ring. eapply Rle_trans; [apply Rabs_triang|].
    assert (Rabs x <= 214.7483646); [|lra]. rewrite Rabs_mult, (Rabs_pos_eq 10000000) in Hx by lra. lra. }
  destruct (mul_correct f _ eq_refl Hf) as [Hp Hpf].
  { rewrite Rabs_mult, (Rabs_pos_eq 10000000) by lra. change (bpow radix2 40) with 1099511627776. lra. }
  pose proof (go_trunc_close _ Hpf) as Ht. rewrite Hp in Ht.
  pose proof (rnd_err (R64 f * 10000000) 2150000000) as Hr.
  rewrite Rabs_mult, (Rabs_pos_eq 10000000) in Hr by lra. specialize (Hr ltac:(lra) ltac:(lra)).
  set (T := go_trunc (f64_mul f f64_1e7)) in *.
  assert (Hd : Rabs (IZR T - x * 10000000) < 1 + / 1000).
  { replace (IZR T - x * 10000000) with ((IZR T - rnd (R64 f * 10000000)) + (rnd (R64 f * 10000000) - R64 f * 10000000) + (R64 f - x) * 10000000) by ring.
    eapply Rle_lt_trans; [apply Rabs_triang|]. eapply Rle_lt_trans; [apply Rplus_le_compat_r, Rabs_triang|].
    rewrite (Rabs_mult (R64 f - x)), (Rabs_pos_eq 10000000) by lra. lra. }
  (* T is an int32: wrapping is the identity *)
  assert (HT : (- 2147483648 <= T < 2147483648)%Z).
  { apply Rabs_lt_inv in Hd. apply Rabs_le_inv in Hx.
    split; [apply le_IZR|apply lt_IZR]; lra. }
  unfold to_e7_pinned. fold T. unfold wrap_int32. change (2^32)%Z with 4294967296%Z. change (2^31)%Z with 2147483648%Z.
  destruct (Z_lt_le_dec T 0) as [Hneg|Hpos].
  - assert (Hm : (T mod 4294967296 = T + 4294967296)%Z) by (symmetry; apply Z.mod_unique with (-1)%Z; lia).
    rewrite Hm. destruct (Z.ltb_spec (T + 4294967296) 2147483648); [lia|]. replace (T + 4294967296 - 4294967296)%Z with T by lia. exact Hd.
  - rewrite Z.mod_small by lia. destruct (Z.ltb_spec T 2147483648); [exact Hd|lia].
Qed.

Theorem e7_center (a b:Z) (k:nat) : (k <= 7)%nat -> let s := (10 ^ (7 - Z.of_nat k))%Z in
  (- 2^31 + 1 < a * s < 2^31 - 1)%Z -> (- 2^31 + 1 < b * s < 2^31 - 1)%Z ->
  let mid := f64_div (f64_add (dec_to_f64 a k) (dec_to_f64 b k)) (f64_of_Z 2) in
  (Z.abs (2 * to_e7_pinned mid - (a + b) * s) <= 2)%Z.
Proof.
  intros Hk s Ha Hb mid.
  destruct (dec_to_f64_correct a k Hk Ha) as [Fa Fa'].
  destruct (dec_to_f64_correct b k Hk Hb) as [Fb Fb'].
  fold s in Fa, Fb.
  set (A := IZR (a * s) / 10000000) in *. set (B := IZR (b * s) / 10000000) in *.
  assert (HA : Rabs A <= 214.7483646).
  { unfold A. unfold Rdiv. rewrite Rabs_mult, (Rabs_pos_eq (/10000000)) by lra. rewrite <- abs_IZR.
    assert (IZR (Z.abs (a * s)) <= 2147483646) by (apply IZR_le; change (2^31)%Z with 2147483648%Z in Ha; lia). lra. }
  assert (HB : Rabs B <= 214.7483646).
  { unfold B. unfold Rdiv. rewrite Rabs_mult, (Rabs_pos_eq (/10000000)) by lra. rewrite <- abs_IZR.
    assert (IZR (Z.abs (b * s)) <= 2147483646) by (apply IZR_le; change (2^31)%Z with 2147483648%Z in Hb; lia). lra. }
  pose proof (rnd_err A 215 ltac:(lra) ltac:(lra)) as EA. pose proof (rnd_err B 215 ltac:(lra) ltac:(lra)) as EB.
  apply Rabs_le_inv in HA, HB, EA, EB.
  destruct (add_correct _ _ Fa' Fb') as [Fs Fs'].
  { rewrite Fa, Fb. change (bpow radix2 10) with 1024. apply Rabs_le. lra. }
  rewrite Fa, Fb in Fs.
  pose proof (rnd_err (rnd A + rnd B) 431 ltac:(apply Rabs_le; lra) ltac:(lra)) as ES. apply Rabs_le_inv in ES.
  destruct (of_Z_correct 2) as [H2 H2f]; [cbn; lia|].
  destruct (div_correct_gen _ _ _ _ Fs H2 ltac:(lra) Fs') as [Fm Fm'].
  { change (bpow radix2 8) with 256. apply Rabs_le. lra. }
  fold mid in Fm, Fm'.
  pose proof (rnd_err (rnd (rnd A + rnd B) / 2) 216 ltac:(apply Rabs_le; lra) ltac:(lra)) as EM. apply Rabs_le_inv in EM.
  assert (Hclose : Rabs (R64 mid - (A + B) / 2) <= / 1000000000000) by (rewrite Fm; apply Rabs_le; lra).
  assert (Hx : Rabs ((A + B) / 2 * 10000000) <= 2147483646).
  { apply Rabs_le. lra. }
  pose proof (trunc_e7_close mid _ Fm' Hclose Hx) as HT.
  assert (E : (A + B) / 2 * 10000000 = IZR ((a + b) * s) / 2).
  { unfold A, B. rewrite Z.mul_add_distr_r, plus_IZR. field. }
  rewrite E in HT. apply Rabs_lt_inv in HT.
  assert (H3 : Rabs (IZR (2 * to_e7_pinned mid - (a + b) * s)) < 3).
  { rewrite minus_IZR, mult_IZR. apply Rabs_lt. lra. }
  rewrite <- abs_IZR in H3. apply lt_IZR in H3. lia.
Qed.
