From Coq Require Import NArith List Lia Bool.
Import ListNotations.
From PM Require Import Model.Varint Model.Directory Model.Iterate.
Open Scope N_scope.

Section Iterate.
Variable fetch : N -> N -> option (list entry).
Variable leaf_base : N.

Lemma walk_dir_spec rec frec :
  (forall o l, match frec o l with Some v => rec o l = (v, true) | None => snd (rec o l) = false end) ->
  forall es acc, match flat_dir leaf_base frec es with
                 | Some v => walk_dir leaf_base rec es acc = (acc ++ v, true)
                 | None => snd (walk_dir leaf_base rec es acc) = false end.
Proof.
  intros Hrec. induction es as [|e r IH]; intro acc; cbn [flat_dir walk_dir].
  - now rewrite app_nil_r.
  - destruct (0 <? run e).
    + specialize (IH (acc ++ [e])). destruct (flat_dir leaf_base frec r); cbn [option_map]; [rewrite IH, <- app_assoc; reflexivity|exact IH].
    + specialize (Hrec (w64 (leaf_base + off e)) (len e)).
      destruct (frec (w64 (leaf_base + off e)) (len e)) as [a|].
      * rewrite Hrec. specialize (IH (acc ++ a)). destruct (flat_dir leaf_base frec r); [rewrite IH, <- app_assoc; reflexivity|exact IH].
      * destruct (rec (w64 (leaf_base + off e)) (len e)) as [sub ok]. cbn in Hrec. subst ok. reflexivity.
Qed.

Theorem iterate_spec : forall fuel o l,
  match flatten fetch leaf_base fuel o l with
  | Some v => iterate fetch leaf_base fuel o l = (v, true)
  | None => snd (iterate fetch leaf_base fuel o l) = false end.
Proof.
  induction fuel as [|f IH]; intros o l; cbn [flatten iterate]; [reflexivity|].
  destruct (fetch o l) as [es|]; [|reflexivity].
  exact (walk_dir_spec (iterate fetch leaf_base f) (flatten fetch leaf_base f) IH es []).
Qed.

(* more fuel never changes a defined result *)
Lemma flat_dir_mono (r1 r2 : N -> N -> option (list entry)) :
  (forall o l v, r1 o l = Some v -> r2 o l = Some v) ->
  forall es v, flat_dir leaf_base r1 es = Some v -> flat_dir leaf_base r2 es = Some v.
Proof.
  intros H. induction es as [|e r IH]; intros v; cbn [flat_dir]; [auto|].
  destruct (0 <? run e).
  - destruct (flat_dir leaf_base r1 r) as [b|]; cbn [option_map]; [|discriminate].
    intro E. rewrite (IH b eq_refl). exact E.
  - destruct (r1 (w64 (leaf_base + off e)) (len e)) as [a|] eqn:E1; [|discriminate].
    destruct (flat_dir leaf_base r1 r) as [b|]; [|discriminate].
    intro E. rewrite (H _ _ _ E1), (IH b eq_refl). exact E.
Qed.
Lemma flatten_mono : forall f o l v, flatten fetch leaf_base f o l = Some v -> flatten fetch leaf_base (S f) o l = Some v.
Proof.
  induction f as [|f IH]; intros o l v; [discriminate|].
  cbn [flatten]. destruct (fetch o l) as [es|]; [|discriminate].
  apply flat_dir_mono. exact IH.
Qed.
End Iterate.

(* the pinned walk violates the property: a two-level tree whose only leaf cannot be fetched still "succeeds" *)
Definition bad_fetch (o l:N) : option (list entry) :=
  if o =? 127 then Some [mkE 0 0 9 0] else None.
Lemma iterate_pinned_refuted :
  exists fetch lb o l, flatten fetch lb 3 o l = None /\ snd (iterate_pinned fetch lb 3 o l) = true.
Proof. exists bad_fetch, 200, 127, 9. split; reflexivity. Qed.
