(* Edit: what is preserved, and the crash states of its two output paths. *)
From Coq Require Import NArith ZArith List Bool Lia.
Import ListNotations.
From PM Require Import Model.Varint Model.Directory Model.Header Model.Resolver Model.Archive Model.Edit.

(* ---- file-system algebra *)
Lemma fs_get_filter_ne p q f : p <> q -> fs_get q (filter (fun x => negb (p =? fst x)%N) f) = fs_get q f.
Proof.
  intro Hne. induction f as [|[r b] f IH]; cbn [filter fs_get fst]; [reflexivity|].
  destruct (N.eqb_spec p r) as [->|Hpr]; cbn [negb].
  - destruct (N.eqb_spec q r) as [->|_]; [congruence|exact IH].
  - cbn [fs_get]. destruct (q =? r)%N; [reflexivity|exact IH].
Qed.
Lemma fs_get_filter_eq p f : fs_get p (filter (fun x => negb (p =? fst x)%N) f) = None.
Proof.
  induction f as [|[r b] f IH]; cbn [filter fs_get fst]; [reflexivity|].
  destruct (N.eqb_spec p r) as [->|Hpr]; cbn [negb]; [exact IH|].
  cbn [fs_get]. destruct (N.eqb_spec p r); [congruence|exact IH].
Qed.
Lemma fs_get_set_eq p b f : fs_get p (fs_set p b f) = Some b.
Proof. unfold fs_set. cbn [fs_get]. rewrite N.eqb_refl. reflexivity. Qed.
Lemma fs_get_set_ne p q b f : p <> q -> fs_get q (fs_set p b f) = fs_get q f.
Proof. intro H. unfold fs_set. cbn [fs_get]. destruct (N.eqb_spec q p); [congruence|]. apply fs_get_filter_ne. exact H. Qed.
Lemma fs_get_del_ne p q f : p <> q -> fs_get q (fs_del p f) = fs_get q f.
Proof. apply fs_get_filter_ne. Qed.

(* operations that only touch the temporary file *)
Definition tmp_only (t:path) (o:fop) : Prop :=
  match o with OCreate p => p = t | OAppend p _ => p = t | OTruncate p _ => p = t | OPwrite p _ _ => p = t | _ => False end.
Lemma tmp_only_get t a o f : t <> a -> tmp_only t o -> fs_get a (run_op f o) = fs_get a f.
Proof.
  intros Hne Ho. destruct o as [p|p b|p b|s d|p n|p o b]; cbn in Ho; try contradiction; subst p; cbn [run_op].
  - apply fs_get_set_ne. exact Hne.
  - destruct (fs_get t f); [apply fs_get_set_ne; exact Hne|reflexivity].
  - destruct (fs_get t f); [apply fs_get_set_ne; exact Hne|reflexivity].
  - destruct (fs_get t f); [apply fs_get_set_ne; exact Hne|reflexivity].
Qed.
Lemma crash_tmp_only t a : t <> a -> forall ops f, Forall (tmp_only t) ops ->
  forall s, In s (crash_states f ops) -> fs_get a s = fs_get a f.
Proof.
  intros Hne. induction ops as [|o r IH]; intros f Hall s Hin; cbn [crash_states] in Hin.
  - destruct Hin as [<-|[]]. reflexivity.
  - inversion Hall as [|o' r' Ho Hr]; subst. destruct Hin as [<-|Hin]; [reflexivity|].
    apply in_app_or in Hin. destruct Hin as [Hin|Hin].
    + destruct o as [p|p b|p b|s0 d|p n|p o b]; try (destruct Hin; fail).
      * apply in_map_iff in Hin. destruct Hin as [n [<- _]]. cbn in Ho. subst p.
        apply (tmp_only_get t a (OAppend t (firstn n b)) f Hne). reflexivity.
      * apply in_map_iff in Hin. destruct Hin as [n [<- _]]. cbn in Ho. subst p.
        apply (tmp_only_get t a (OPwrite t o (firstn n b)) f Hne). reflexivity.
    + rewrite (IH _ Hr _ Hin). apply (tmp_only_get t); assumption.
Qed.
Lemma crash_states_app : forall ops1 ops2 f s, In s (crash_states f (ops1 ++ ops2)) ->
  In s (crash_states f ops1) \/ In s (crash_states (fold_left run_op ops1 f) ops2).
Proof.
  induction ops1 as [|o r IH]; intros ops2 f s Hin.
  - right. exact Hin.
  - cbn [app crash_states] in Hin. destruct Hin as [<-|Hin]; [left; cbn; auto|].
    apply in_app_or in Hin. destruct Hin as [Hin|Hin].
    + left. cbn [crash_states]. right. apply in_or_app. left. exact Hin.
    + destruct (IH _ _ _ Hin) as [H|H]; [left|right; exact H]. cbn [crash_states]. right. apply in_or_app. right. exact H.
Qed.

Lemma append_get_some t b f : fs_get t (run_op f (OAppend t b)) = option_map (fun old => old ++ b) (fs_get t f).
Proof. cbn [run_op]. destruct (fs_get t f) as [old|] eqn:E; cbn [option_map]; [apply fs_get_set_eq|exact E]. Qed.
(* the temporary file after the five appends *)
Lemma tmp_after_appends t f hdr root meta leaves tiles :
  fs_get t (fold_left run_op [OCreate t; OAppend t hdr; OAppend t root; OAppend t meta; OAppend t leaves; OAppend t tiles] f)
  = Some (hdr ++ root ++ meta ++ leaves ++ tiles).
Proof.
  cbn [fold_left]. rewrite !append_get_some. cbn [run_op]. rewrite fs_get_set_eq. cbn [option_map app].
  rewrite <- !app_assoc. reflexivity.
Qed.

Theorem metadata_edit_crash_safe : forall f a t old hdr root meta leaves tiles, t <> a -> fs_get a f = Some old ->
  forall s, In s (crash_states f (metadata_edit_ops a t hdr root meta leaves tiles)) ->
  fs_get a s = Some old \/ fs_get a s = Some (hdr ++ root ++ meta ++ leaves ++ tiles).
Proof.
  intros f a t old hdr root meta leaves tiles Hne Hold s Hin. unfold metadata_edit_ops in Hin.
  change [OCreate t; OAppend t hdr; OAppend t root; OAppend t meta; OAppend t leaves; OAppend t tiles; ORename t a]
    with ([OCreate t; OAppend t hdr; OAppend t root; OAppend t meta; OAppend t leaves; OAppend t tiles] ++ [ORename t a]) in Hin.
  apply crash_states_app in Hin. destruct Hin as [Hin|Hin].
  - left. rewrite <- Hold. eapply (crash_tmp_only t a Hne); [|exact Hin]. repeat constructor.
  - remember (fold_left run_op [OCreate t; OAppend t hdr; OAppend t root; OAppend t meta; OAppend t leaves; OAppend t tiles] f) as g eqn:Hg.
    assert (Hga : fs_get a g = Some old).
    { rewrite <- Hold. subst g. assert (In (fold_left run_op [OCreate t; OAppend t hdr; OAppend t root; OAppend t meta; OAppend t leaves; OAppend t tiles] f)
        (crash_states f [OCreate t; OAppend t hdr; OAppend t root; OAppend t meta; OAppend t leaves; OAppend t tiles])) as Hlast.
      { cbn [crash_states fold_left]. right. apply in_or_app. right. right. apply in_or_app. right. right. apply in_or_app. right.
        right. apply in_or_app. right. right. apply in_or_app. right. right. apply in_or_app. right. left. reflexivity. }
      eapply (crash_tmp_only t a Hne); [|exact Hlast]. repeat constructor. }
    assert (Hgt : fs_get t g = Some (hdr ++ root ++ meta ++ leaves ++ tiles)) by (subst g; apply tmp_after_appends).
    cbn [crash_states app] in Hin. destruct Hin as [<-|[<-|[]]].
    + left. exact Hga.
    + right. cbn [run_op]. rewrite Hgt. apply fs_get_set_eq.
Qed.

Theorem header_edit_crash_safe : forall f a old hdr, fs_get a f = Some old ->
  forall s, In s (crash_states f (header_edit_ops a hdr)) -> fs_get a s = Some old \/ fs_get a s = Some (overwrite0 old hdr).
Proof.
  intros f a old hdr Hold s Hin. cbn in Hin. destruct Hin as [<-|[<-|[]]]; [left; exact Hold|right].
  rewrite Hold. apply fs_get_set_eq.
Qed.
(* a failed or interrupted edit leaves every other path except the temporary one alone as well *)
Theorem edit_other_paths_untouched : forall f a t q hdr root meta leaves tiles, q <> a -> q <> t ->
  forall s, In s (crash_states f (metadata_edit_ops a t hdr root meta leaves tiles)) -> fs_get q s = fs_get q f.
Proof.
  intros f a t q hdr root meta leaves tiles Hqa Hqt s Hin. unfold metadata_edit_ops in Hin.
  change [OCreate t; OAppend t hdr; OAppend t root; OAppend t meta; OAppend t leaves; OAppend t tiles; ORename t a]
    with ([OCreate t; OAppend t hdr; OAppend t root; OAppend t meta; OAppend t leaves; OAppend t tiles] ++ [ORename t a]) in Hin.
  assert (Hpre : forall s', In s' (crash_states f [OCreate t; OAppend t hdr; OAppend t root; OAppend t meta; OAppend t leaves; OAppend t tiles]) -> fs_get q s' = fs_get q f).
  { intros s' H'. eapply (crash_tmp_only t q); [congruence| |exact H']. repeat constructor. }
  apply crash_states_app in Hin. destruct Hin as [Hin|Hin]; [apply Hpre; exact Hin|].
  set (g := fold_left run_op [OCreate t; OAppend t hdr; OAppend t root; OAppend t meta; OAppend t leaves; OAppend t tiles] f) in *.
  assert (Hg : fs_get q g = fs_get q f).
  { apply Hpre. subst g. cbn [crash_states fold_left]. right. apply in_or_app. right. right. apply in_or_app. right. right. apply in_or_app. right.
    right. apply in_or_app. right. right. apply in_or_app. right. right. apply in_or_app. right. left. reflexivity. }
  cbn [crash_states app] in Hin. destruct Hin as [<-|[<-|[]]]; [exact Hg|].
  cbn [run_op]. destruct (fs_get t g) as [b|]; [|exact Hg].
  rewrite fs_get_set_ne by congruence. rewrite fs_get_del_ne by congruence. exact Hg.
Qed.

(* the general shape: operations on the temporary file only, then the rename *)
Lemma crash_states_last : forall ops f, In (fold_left run_op ops f) (crash_states f ops).
Proof.
  induction ops as [|o r IH]; intro f; cbn [fold_left crash_states]; [left; reflexivity|].
  right. apply in_or_app. right. apply IH.
Qed.
Theorem tmp_then_rename_safe : forall ops f a t old, t <> a -> Forall (tmp_only t) ops -> fs_get a f = Some old ->
  forall s, In s (crash_states f (ops ++ [ORename t a])) ->
  fs_get a s = Some old \/ (fs_get a s = fs_get t (fold_left run_op ops f) /\ fs_get a s <> None).
Proof.
  intros ops f a t old Hne Hall Hold s Hin. apply crash_states_app in Hin. destruct Hin as [Hin|Hin].
  - left. rewrite <- Hold. apply (crash_tmp_only t a Hne ops f Hall s Hin).
  - set (g := fold_left run_op ops f) in *.
    assert (Hga : fs_get a g = Some old) by (rewrite <- Hold; apply (crash_tmp_only t a Hne ops f Hall); apply crash_states_last).
    cbn [crash_states app] in Hin. destruct Hin as [<-|[<-|[]]]; [left; exact Hga|].
    cbn [run_op]. destruct (fs_get t g) as [b|] eqn:Eg; [|left; exact Hga].
    right. rewrite fs_get_set_eq. split; [reflexivity|discriminate].
Qed.
Theorem sync_crash_safe : forall f a t old target writes, t <> a -> fs_get a f = Some old ->
  forall s, In s (crash_states f (sync_ops a t target writes)) ->
  fs_get a s = Some old \/ fs_get a s = fs_get t (fold_left run_op ([OCreate t; OTruncate t target] ++ map (fun w => OPwrite t (fst w) (snd w)) writes) f).
Proof.
  intros f a t old target writes Hne Hold s Hin. unfold sync_ops in Hin. rewrite app_assoc in Hin.
  assert (Hall : Forall (tmp_only t) ([OCreate t; OTruncate t target] ++ map (fun w => OPwrite t (fst w) (snd w)) writes)).
  2:{ destruct (tmp_then_rename_safe _ f a t old Hne Hall Hold s Hin) as [H|[H _]]; [left; exact H|right; exact H]. }
  apply Forall_app. split; [repeat constructor|]. apply Forall_forall. intros o Ho. apply in_map_iff in Ho. destruct Ho as [w [<- _]]. reflexivity.
Qed.

(* a failure under an output-size limit leaves one of the crash states *)
Theorem run_limited_crash_state : forall L ops f, In (run_limited L f ops) (crash_states f ops).
Proof.
  intros L. induction ops as [|o r IH]; intro f; cbn [run_limited crash_states]; [left; reflexivity|].
  destruct o as [p|p b|p b|s d|p n|p o b]; try (right; apply in_or_app; right; apply IH).
  destruct (Nat.eqb_spec (List.length b) 0) as [Hz|Hnz]; cbn [orb]; [right; apply in_or_app; right; apply IH|].
  destruct (Nat.leb_spec (fsize p f + List.length b) L) as [Hle|Hgt].
  - right. apply in_or_app. right. apply IH.
  - right. apply in_or_app. left. apply in_map_iff. exists (L - fsize p f)%nat. split; [reflexivity|]. apply in_seq. lia.
Qed.

(* ---- what edit preserves *)
Definition editable (f:nat) : bool :=
  existsb (Nat.eqb f) [F_tile_type; F_tile_comp; F_min_zoom; F_max_zoom; F_min_lon; F_min_lat; F_max_lon; F_max_lat; F_center_lon; F_center_lat; F_center_zoom].
Definition moved (f:nat) : bool := existsb (Nat.eqb f) [F_meta_off; F_meta_len; F_leaf_off; F_data_off].
Lemma upd_other h f g v : g <> f -> upd h f v g = h g.
Proof. intro H. unfold upd. destruct (Nat.eqb_spec g f); [congruence|reflexivity]. Qed.
Lemma apply_hjson_noneditable h j h' : apply_hjson h j = Some h' -> forall f, editable f = false -> h' f = h f.
Proof.
  unfold apply_hjson. destruct (hj_bounds j) as [|b0 [|b1 [|b2 [|b3 [|? ?]]]]]; try discriminate.
  destruct (hj_center j) as [|c0 [|c1 [|c2 [|? ?]]]]; try discriminate.
  intros H f Hf. inversion H; subst h'. clear H.
  unfold editable in Hf. cbn [existsb] in Hf. repeat (apply orb_false_iff in Hf; destruct Hf as [?H Hf]).
  repeat match goal with H : Nat.eqb _ _ = false |- _ => apply Nat.eqb_neq in H end.
  rewrite !upd_other by assumption. reflexivity.
Qed.
