From Coq Require Import NArith ZArith List Lia ZifyN ZifyBool.
From PM Require Import Base.Wrap Model.Hilbert Model.TileId.
Ltac Zify.zify_post_hook ::= Z.div_mod_to_equations.
Open Scope N_scope.

Lemma pow4 k : 4^(N.of_nat (S k)) = 4 * 4^(N.of_nat k).
Proof. rewrite Nat2N.inj_succ, N.pow_succ_r'; reflexivity. Qed.
Lemma pow2 k : 2^(N.of_nat (S k)) = 2 * 2^(N.of_nat k).
Proof. rewrite Nat2N.inj_succ, N.pow_succ_r'; reflexivity. Qed.
Lemma pow2_pos k : 0 < 2^(N.of_nat k). Proof. apply N.neq_0_lt_0, N.pow_nonzero; lia. Qed.
Lemma pow4_pos k : 0 < 4^(N.of_nat k). Proof. apply N.neq_0_lt_0, N.pow_nonzero; lia. Qed.

Lemma rot_bound s x y q : x < s -> y < s -> fst (rot s x y q) < s /\ snd (rot s x y q) < s.
Proof. intros; unfold rot; destruct q as [|[[|[]|]|[]|]]; simpl; lia. Qed.

Lemma rot_invol s x y q : x < s -> y < s -> let '(a,b) := rot s x y q in rot s a b q = (x,y).
Proof. intros; unfold rot; destruct q as [|[[|[]|]|[]|]]; simpl; f_equal; lia. Qed.

Lemma hidx_bound k : forall x y, x < 2^(N.of_nat k) -> y < 2^(N.of_nat k) -> hidx k x y < 4^(N.of_nat k).
Proof.
  induction k as [|k IH]; intros x y Hx Hy; [simpl; lia|].
  cbn [hidx]. rewrite pow2 in Hx, Hy. rewrite pow4.
  pose proof (pow2_pos k) as Hs. set (s := 2^(N.of_nat k)) in *.
  assert (Hbx: x / s < 2) by (apply N.div_lt_upper_bound; lia).
  assert (Hby: y / s < 2) by (apply N.div_lt_upper_bound; lia).
  assert (Hq : quad (x/s) (y/s) < 4).
  { destruct (x/s) as [|[]], (y/s) as [|[]]; simpl; lia. }
  destruct (rot s (x mod s) (y mod s) (quad (x/s) (y/s))) as [x' y'] eqn:E.
  pose proof (rot_bound s (x mod s) (y mod s) (quad (x/s) (y/s))) as R. rewrite E in R; cbn [fst snd] in R.
  assert (x mod s < s) by (apply N.mod_lt; lia). assert (y mod s < s) by (apply N.mod_lt; lia).
  destruct R as [R1 R2]; auto. specialize (IH x' y' R1 R2). nia.
Qed.

Lemma hxy_bound k : forall d, d < 4^(N.of_nat k) -> fst (hxy k d) < 2^(N.of_nat k) /\ snd (hxy k d) < 2^(N.of_nat k).
Proof.
  induction k as [|k IH]; intros d Hd; [simpl; lia|].
  cbn [hxy]. rewrite pow4 in Hd. rewrite pow2.
  pose proof (pow2_pos k) as Hs. pose proof (pow4_pos k) as H4. set (s := 2^(N.of_nat k)) in *. set (f := 4^(N.of_nat k)) in *.
  assert (Hq : d / f < 4) by (apply N.div_lt_upper_bound; lia).
  assert (Hm : d mod f < f) by (apply N.mod_lt; lia).
  specialize (IH _ Hm). destruct (hxy k (d mod f)) as [x y]; cbn [fst snd] in IH. destruct IH as [I1 I2].
  pose proof (rot_bound s x y (d/f) I1 I2) as R. destruct (rot s x y (d/f)) as [x' y']; cbn [fst snd] in *.
  destruct R as [R1 R2].
  assert (qx (d/f) < 2) by (unfold qx; apply N.div_lt_upper_bound; lia).
  assert (qy (d/f) < 2) by (unfold qy; destruct (d/f) as [|[[]|[]|]]; lia).
  assert (qx (d/f) * s <= 1 * s) by (apply N.mul_le_mono_r; lia).
  assert (qy (d/f) * s <= 1 * s) by (apply N.mul_le_mono_r; lia).
  lia.
Qed.

Lemma quad_qxqy q : q < 4 -> quad (qx q) (qy q) = q.
Proof. intros; destruct q as [|[[|[]|]|[]|]]; try reflexivity; lia. Qed.
Lemma qxqy_quad a b : a < 2 -> b < 2 -> qx (quad a b) = a /\ qy (quad a b) = b.
Proof. intros; destruct a as [|[]], b as [|[]]; try (simpl; split; reflexivity); lia. Qed.

Theorem hidx_hxy k : forall d, d < 4^(N.of_nat k) -> let '(x,y) := hxy k d in hidx k x y = d.
Proof.
  induction k as [|k IH]; intros d Hd; [simpl in *; lia|].
  cbn [hxy]. rewrite pow4 in Hd.
  pose proof (pow2_pos k) as Hs. pose proof (pow4_pos k) as H4. set (s := 2^(N.of_nat k)) in *. set (f := 4^(N.of_nat k)) in *.
  assert (Hq : d / f < 4) by (apply N.div_lt_upper_bound; lia).
  assert (Hm : d mod f < f) by (apply N.mod_lt; lia).
  pose proof (IH _ Hm) as IHd. pose proof (hxy_bound k _ Hm) as B. fold s in B.
  destruct (hxy k (d mod f)) as [x y]; cbn [fst snd] in B. destruct B as [B1 B2].
  pose proof (rot_bound s x y (d/f) B1 B2) as R. pose proof (rot_invol s x y (d/f) B1 B2) as RI.
  destruct (rot s x y (d/f)) as [x' y'] eqn:E; cbn [fst snd] in R. destruct R as [R1 R2].
  cbn [hidx]. fold s f.
  assert (Hqx: qx (d/f) < 2) by (unfold qx; apply N.div_lt_upper_bound; lia).
  assert (Hqy: qy (d/f) < 2) by (unfold qy; destruct (d/f) as [|[[]|[]|]]; lia).
  assert (E1: (x' + qx (d/f) * s) / s = qx (d/f)) by (rewrite N.div_add by lia; rewrite N.div_small by lia; lia).
  assert (E2: (y' + qy (d/f) * s) / s = qy (d/f)) by (rewrite N.div_add by lia; rewrite N.div_small by lia; lia).
  assert (E3: (x' + qx (d/f) * s) mod s = x') by (rewrite N.mod_add by lia; apply N.mod_small; lia).
  assert (E4: (y' + qy (d/f) * s) mod s = y') by (rewrite N.mod_add by lia; apply N.mod_small; lia).
  rewrite E1, E2, E3, E4, quad_qxqy by lia. rewrite RI. rewrite IHd.
  pose proof (N.div_mod d f). lia.
Qed.

Theorem hxy_hidx k : forall x y, x < 2^(N.of_nat k) -> y < 2^(N.of_nat k) -> hxy k (hidx k x y) = (x,y).
Proof.
  induction k as [|k IH]; intros x y Hx Hy; [simpl in *; f_equal; lia|].
  cbn [hidx]. rewrite pow2 in Hx, Hy.
  pose proof (pow2_pos k) as Hs. pose proof (pow4_pos k) as H4. set (s := 2^(N.of_nat k)) in *. set (f := 4^(N.of_nat k)) in *.
  assert (Hbx: x / s < 2) by (apply N.div_lt_upper_bound; lia).
  assert (Hby: y / s < 2) by (apply N.div_lt_upper_bound; lia).
  set (q := quad (x/s) (y/s)).
  assert (Hq : q < 4) by (unfold q; destruct (x/s) as [|[]], (y/s) as [|[]]; simpl; lia).
  assert (Mx: x mod s < s) by (apply N.mod_lt; lia). assert (My: y mod s < s) by (apply N.mod_lt; lia).
  pose proof (rot_bound s _ _ q Mx My) as R. pose proof (rot_invol s _ _ q Mx My) as RI.
  destruct (rot s (x mod s) (y mod s) q) as [x' y'] eqn:E; cbn [fst snd] in R. destruct R as [R1 R2].
  pose proof (hidx_bound k x' y' R1 R2) as HB. fold f in HB.
  cbn [hxy]. fold s f.
  assert (D: (q * f + hidx k x' y') / f = q) by (rewrite N.add_comm, N.div_add by lia; rewrite N.div_small by lia; lia).
  assert (M: (q * f + hidx k x' y') mod f = hidx k x' y') by (rewrite N.add_comm, N.mod_add by lia; apply N.mod_small; lia).
  rewrite D, M, IH by assumption. rewrite RI.
  destruct (qxqy_quad (x/s) (y/s) Hbx Hby) as [Q1 Q2]. fold q in Q1, Q2. rewrite Q1, Q2.
  pose proof (N.div_mod x s). pose proof (N.div_mod y s). f_equal; lia.
Qed.
