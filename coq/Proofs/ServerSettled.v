(* Where the hypothesis of Proofs/ServerHarmless.v comes from.  Every tag that occurs in a key of the system is the tag of a version
   of that archive's history (KT, all reachable states).  Hence, as long as an archive that exists is never deleted and no fault is
   injected into its reads - it may be REPLACED any number of times - every response queued for it is a success or the refusal of a
   tag that is not the current one (SI): exactly what a request needs to find when it begins. *)
From Coq Require Import NArith List Lia Bool Arith.
Import ListNotations.
From PM Require Import Model.Server Proofs.Server Proofs.ServerExec Proofs.ServerCoalesce Proofs.ServerCache Proofs.ServerHarmless.
Open Scope N_scope.

Section Settled.
Context `{V:Version}.
Hypothesis root_off_nz : forall v, fst (root v) <> 0.
Hypothesis leaf_base_nz : forall v lo, leaf_base v + lo <> 0.

Definition tag_ok (hi:list (N*ver)) (k:key) : Prop := ke k = 0 \/ exists v, In (kn k, v) hi /\ ke k = vtag v.
Record KT (s:sys) : Prop := {
  K1 : forall m r k p, In (m,r,k,p) (reqq s) -> tag_ok (hist s) k;
  K2 : forall k, In k (ikeys s) -> tag_ok (hist s) k;
  K3 : forall k, In k (fetches s) -> tag_ok (hist s) k;
  K4 : forall k cv, In (k,cv) (respq s) -> tag_ok (hist s) k
}.
Lemma tag_ok_mono hi hi' k : incl hi hi' -> tag_ok hi k -> tag_ok hi' k.
Proof. intros Hi [H|[v [A B]]]; [left; exact H|right; exists v; auto]. Qed.

(* the key of a request a handler emits carries no tag or the tag of a version of the history *)
Lemma deliver_tag_ok hi m h k cv : hgood hi h -> expects h k -> wk hi k cv ->
  match deliver m h cv with HO _ (Some (k', _)) _ => tag_ok hi k' | _ => True end.
Proof.
  intros Hg He Hwk. destruct h as [w q a|w q a hv o l d|q a hv o l]; cbn in He; [| |contradiction].
  - subst k. unfold deliver. destruct (cv_ok cv) eqn:Eok; cbn [negb]; [|exact I]. specialize (Hwk Eok).
    destruct (cv_pay cv) as [[hv|v o l]|]; [|exact I|exact I]. destruct Hwk as (_ & Hin & _). cbn [kn hdrkey] in Hin.
    destruct (negb (t_kind q =? 0)); [exact I|]. destruct (negb (zoom_ok hv (t_z q))); [exact I|]. destruct (negb (ext_ok hv (t_ext q))); [exact I|].
    right. exists hv. cbn. auto.
  - cbn [hgood] in Hg. destruct Hg as (_ & Hin & _). unfold deliver. destruct (cv_bad cv).
    { unfold retry. destruct a; [left; reflexivity|exact I]. }
    destruct (negb (cv_ok cv)); [exact I|]. destruct (cv_pay cv) as [[v|v' o' l']|]; [exact I| |exact I].
    destruct (dir_lookup v' o' l' (t_id q)); [exact I|exact I|]. destruct (Nat.leb 3 d); [exact I|]. right. exists hv. cbn. auto.
Qed.

Lemma KT_apply_out s r o : KT s -> (match o with HO _ (Some (k', _)) _ => tag_ok (hist s) k' | _ => True end) -> KT (apply_out s r o).
Proof.
  intros [A B C D] Ho. destruct o as [h rq dn]. constructor; cbn [apply_out reqq hist fetches respq]; auto.
  - intros m r0 k p Hin. destruct rq as [[k' p']|]; [|eauto]. apply in_app_or in Hin. destruct Hin as [Hin|[E|[]]]; [eauto|]. inversion E; subst. exact Ho.
Qed.
Lemma KT_deliver_to s m r k cv : Inv s -> KT s -> wk (hist s) k cv -> pend_ok s m r k -> KT (deliver_to s (m, r) cv).
Proof.
  intros I K Hwk (_ & _ & Hex). unfold deliver_to. cbn [fst snd].
  destruct (get_handler r (handlers s)) as [h|] eqn:Hg; [|exact K]. destruct (waiting h) as [w|] eqn:Hw; [|exact K].
  destruct (Nat.eqb_spec w m) as [->|]; [|exact K]. apply KT_apply_out; [exact K|].
  apply (deliver_tag_ok (hist s) (next s) h k cv); [exact (I_hand s I _ _ Hg)|exact (Hex h eq_refl Hw)|exact Hwk].
Qed.
Lemma KT_fold k cv : forall ws s, Inv s -> KT s -> wk (hist s) k cv -> (forall m r, In (m,r) ws -> pend_ok s m r k) ->
  KT (fold_left (fun st mr => deliver_to st mr cv) ws s).
Proof.
  induction ws as [|[m r] ws IH]; intros s I K Hwk Hp; [exact K|]. cbn [fold_left]. apply IH.
  - eapply deliver_to_inv; eauto. apply Hp. left. reflexivity.
  - eapply KT_deliver_to; eauto. apply Hp. left. reflexivity.
  - destruct (deliver_to_frame s (m,r) cv) as [-> _]. exact Hwk.
  - intros m' r' Hin. apply deliver_to_pend; auto.
    + exists k. split; [exact Hwk|]. apply Hp. left. reflexivity.
    + apply Hp. right. exact Hin.
Qed.

Lemma KT_init : KT init.
Proof. constructor; cbn; intros; contradiction. Qed.

Lemma fetch_result_keys s k k' cv : In (k',cv) (fetch_result s k) -> k' = k \/ ke k' = 0.
Proof.
  unfold fetch_result. destruct (cur s (kn k)) as [v|]; [|intros [E|[]]; inversion E; auto].
  destruct (negb (ke k =? 0) && negb (ke k =? vtag v)); [intros [E|[]]; inversion E; auto|].
  destruct ((ko k =? 0) && (kl k =? 0)); [intros [E|[E|[]]]|intros [E|[]]]; inversion E; auto.
Qed.

Theorem step_kt s s' : Inv s -> KT s -> step s s' -> KT s'.
Proof.
  intros I K St. pose proof K as [A B C D]. destruct St.
  - change (KT (apply_out s rid (HO (Some (HWaitHdr (next s) q 0)) (Some (hdrkey (t_name q), 0)) None))).
    apply KT_apply_out; [exact K|]. left. reflexivity.
  - assert (Hitem: pend_ok s m rid k) by (eapply (I_req s I); rewrite H; apply in_elt).
    assert (Hk: tag_ok (hist s) k) by (eapply A; rewrite H; apply in_elt).
    assert (Hc1: forall x, In x c1 -> In x (cache s)).
    { unfold c1. destruct (p =? 0); [auto|]. intros x Hx. eapply In_purge; eauto. }
    assert (Hrq: forall m0 rid0 k0 p0, In (m0,rid0,k0,p0) (pre ++ post) -> In (m0,rid0,k0,p0) (reqq s)).
    { intros m0 rid0 k0 p0 Hin. rewrite H. apply in_app_or in Hin. apply in_or_app. destruct Hin; [left|right; right]; auto. }
    assert (K1': KT (upd s c1 (inflight s) (pre ++ post) (respq s) (fetches s))).
    { constructor; cbn; eauto. }
    destruct (lookup k c1) as [cv|] eqn:El.
    + apply (KT_deliver_to _ m rid k cv); [|exact K1'| |].
      * apply Inv_upd; eauto using (I_infl s I), (I_resp s I), (I_fetch s I). intros m0 rid0 k0 p0 Hin. eapply (I_req s I); eauto.
      * cbn. eapply (I_cache s I). apply Hc1. eapply lookup_In; eauto.
      * destruct Hitem as [Hm [Hs Hex]]. split; [exact Hm|]. split; [exact Hs|exact Hex].
    + destruct (lookup k (inflight s)) as [ws|] eqn:Ei.
      * constructor; cbn; eauto. intros k0 [E|Hin]; [subst; exact Hk|]. apply B. unfold ikeys. apply remove_key_keys in Hin. tauto.
      * constructor; cbn; eauto.
        -- intros k0 [E|Hin]; [subst; exact Hk|]. apply B. exact Hin.
        -- intros k0 [E|Hin]; [subst; exact Hk|]. apply C. exact Hin.
  - assert (Hk: tag_ok (hist s) k) by (apply C; rewrite H; apply in_elt).
    constructor; cbn; eauto.
    + intros k0 Hin. apply C. rewrite H. apply in_app_or in Hin. apply in_or_app. destruct Hin; [left|right; right]; auto.
    + intros k0 cv0 Hin. apply in_app_or in Hin. destruct Hin as [Hin|Hin]; [eauto|].
      destruct (fetch_result_keys s k k0 cv0 Hin) as [->|E]; [exact Hk|left; exact E].
  - assert (Hwk: wk (hist s) k cv) by (eapply (I_resp s I); rewrite H; apply in_elt).
    apply (KT_fold k cv).
    + apply Inv_upd; eauto using (I_req s I), (I_fetch s I).
      * intros x Hx. destruct (cv_ok cv); [destruct Hx as [<-|Hx]; [right; eauto|left; exact Hx]|left; exact Hx].
      * intros k0 ws0 m0 rid0 Hin Hin2. eapply (I_infl s I); eauto. eapply In_remove_key; eauto.
      * intros k0 cv0 Hin. eapply (I_resp s I). rewrite H. apply in_app_or in Hin. apply in_or_app. destruct Hin; [left|right; right]; eauto.
    + constructor; cbn; eauto.
      * intros k0 Hin. apply B. unfold ikeys in *. apply remove_key_keys in Hin. tauto.
      * intros k0 cv0 Hin. eapply D. rewrite H. apply in_app_or in Hin. apply in_or_app. destruct Hin; [left|right; right]; eauto.
    + exact Hwk.
    + intros m0 rid0 Hin. unfold ws in Hin. destruct (lookup k (inflight s)) as [ws0|] eqn:Ei; [|contradiction].
      destruct (I_infl s I k ws0 m0 rid0 (lookup_In _ _ _ Ei) Hin) as [Hm [Hs Hex]]. split; [exact Hm|]. split; [exact Hs|exact Hex].
  - constructor; cbn; eauto.
  - destruct (cur s (t_name q)) as [v|]; [destruct (vtag v =? vtag hv)|]; apply KT_apply_out; auto; try exact Logic.I.
    unfold retry. destruct a; [left; reflexivity|exact Logic.I].
  - assert (Hk: tag_ok (hist s) k) by (apply C; rewrite H; apply in_elt).
    constructor; cbn; eauto.
    + intros k0 Hin. apply C. rewrite H. apply in_app_or in Hin. apply in_or_app. destruct Hin; [left|right; right]; auto.
    + intros k0 cv0 Hin. apply in_app_or in Hin. destruct Hin as [Hin|[E|[]]]; [eauto|]. inversion E; subst. exact Hk.
  - apply KT_apply_out; [exact K|]. destruct kind; try exact Logic.I. unfold retry. destruct a; [left; reflexivity|exact Logic.I].
  - assert (Hincl: incl (hist s) ((n,v) :: hist s)) by (intros x Hx; now right).
    constructor; cbn; intros; eapply tag_ok_mono; eauto.
  - constructor; cbn; eauto.
Qed.
Theorem reach_kt s : reach s -> KT s.
Proof. induction 1 as [|s s' R IH St]; [apply KT_init|]. eapply step_kt; eauto. apply (reach_inv root_off_nz leaf_base_nz). exact R. Qed.

(* ---- an archive that is never deleted and whose reads never fail *)
Variable n : N.
Definition clean (l:label) : Prop :=
  match l with LDelete m => m <> n | LFetchFail k _ => kn k <> n | _ => True end.
Definition settled (s:sys) : Prop :=
  cur s n <> None /\
  forall k cv, In (k,cv) (respq s) -> kn k = n -> cv_ok cv = true \/ (cv_bad cv = true /\ ke k <> 0 /\ forall v, cur s n = Some v -> ke k <> vtag v).

Lemma fold_respq cv : forall ws s, respq (fold_left (fun st mr => deliver_to st mr cv) ws s) = respq s /\ cur (fold_left (fun st mr => deliver_to st mr cv) ws s) = cur s.
Proof. intros ws s. destruct (fold_deliver_static cv ws s) as (_ & _ & A & _ & B & _). auto. Qed.

Theorem exec_settled s l s' : reach s -> settled s -> clean l -> exec s l = Some s' -> settled s'.
Proof.
  intros Rch [Sa Sb] Hcl Hex. pose proof (reach_kt s Rch) as K.
  destruct l as [r q|m|k|k|k|r|k bad|r kind|nm v|nm]; cbv beta iota zeta delta [exec clean] in Hcl, Hex.
  - destruct (get_handler r (handlers s)); [discriminate|]. apply some_inj in Hex. subst s'. split; cbn; auto.
  - destruct (split_req m (reqq s)) as [[[pre [[[m' r] k] p]] post]|]; [|discriminate]. apply some_inj in Hex. subst s'.
    set (c1 := if p =? 0 then cache s else purge (kn k) p (cache s)).
    destruct (lookup k c1) as [cv|].
    + destruct (deliver_to_static (upd s c1 (inflight s) (pre ++ post) (respq s) (fetches s)) (m', r) cv) as (_ & _ & A & _ & B & _).
      unfold settled. rewrite A, B. cbn. auto.
    + destruct (lookup k (inflight s)); split; cbn; auto.
  - destruct (split_k k (fetches s)) as [[pre post]|]; [|discriminate]. apply some_inj in Hex. subst s'. split; cbn [upd cur respq]; [exact Sa|].
    intros k0 cv0 Hin Hn. apply in_app_or in Hin. destruct Hin as [Hin|Hin]; [auto|].
    destruct (cur s n) as [vc|] eqn:Ec; [|contradiction].
    destruct (fetch_result_item n vc s k Ec k0 cv0 Hin Hn) as [[Hok|(Hb & Hz & Hs)] _]; [left; exact Hok|right].
    repeat split; auto. intros v E. inversion E; subst. exact Hs.
  - destruct (split_key k (respq s)) as [[[pre [k' cv]] post]|] eqn:Es; [|discriminate]. apply split_key_spec in Es. apply some_inj in Hex. subst s'.
    unfold settled. destruct (fold_respq cv (match lookup k' (inflight s) with Some ws => ws | None => [] end)
      (upd s (if cv_ok cv then (k', cv) :: cache s else cache s) (remove_key k' (inflight s)) (reqq s) (pre ++ post) (fetches s))) as [A B].
    rewrite A, B. cbn [upd cur respq]. split; [exact Sa|]. intros k0 cv0 Hin. apply Sb. rewrite Es. apply in_app_or in Hin. apply in_or_app. destruct Hin; [left|right; right]; auto.
  - apply some_inj in Hex. subst s'. split; cbn; auto.
  - destruct (get_handler r (handlers s)) as [[| |q a hv o l]|]; try discriminate. apply some_inj in Hex. subst s'.
    destruct (cur s (t_name q)) as [v|]; [destruct (vtag v =? vtag hv)|];
      match goal with |- settled (apply_out s r ?o) => destruct (apply_out_static s r o) as (_ & _ & A & _ & B & _) end; unfold settled; rewrite A, B; auto.
  - destruct (split_k k (fetches s)) as [[pre post]|]; [|discriminate]. apply some_inj in Hex. subst s'. split; cbn [upd cur respq]; [exact Sa|].
    intros k0 cv0 Hin Hn. apply in_app_or in Hin. destruct Hin as [Hin|[E|[]]]; [auto|]. inversion E; subst. contradiction.
  - destruct (get_handler r (handlers s)) as [[| |q a hv o l]|]; try discriminate. apply some_inj in Hex. subst s'.
    match goal with |- settled (apply_out s r ?o) => destruct (apply_out_static s r o) as (_ & _ & A & _ & B & _) end. unfold settled. rewrite A, B. auto.
  - (* a replacement: the new tag differs from every tag of the history, hence from every tag in a key *)
    destruct (tag_fresh s nm v) eqn:Ef; [|discriminate]. apply some_inj in Hex. subst s'. split; cbn [cur respq].
    + destruct (n =? nm); [discriminate|exact Sa].
    + intros k0 cv0 Hin Hn. destruct (Sb k0 cv0 Hin Hn) as [Hok|(Hb & Hz & Hs)]; [left; exact Hok|right]. repeat split; auto.
      intros v0. destruct (N.eqb_spec n nm) as [<-|Hne]; [|apply Hs].
      intro E. inversion E; subst v0. intro Ht.
      destruct (K4 s K k0 cv0 Hin) as [E0|[v' [Hv' Et]]]; [contradiction|]. rewrite Hn in Hv'.
      unfold tag_fresh in Ef. apply andb_true_iff in Ef. destruct Ef as [_ Ef]. rewrite forallb_forall in Ef. specialize (Ef (n, v') Hv'). cbn [fst snd] in Ef.
      rewrite N.eqb_refl in Ef. cbn [andb] in Ef. apply negb_true_iff in Ef. apply N.eqb_neq in Ef. congruence.
  - apply some_inj in Hex. subst s'. assert (E: (n =? nm) = false) by (apply N.eqb_neq; congruence). split; cbn [cur respq]; rewrite E; auto.
Qed.
Lemma run_settled : forall ls s s', reach s -> settled s -> Forall clean ls -> run_labels ls s = Some s' -> settled s'.
Proof.
  unfold run_labels. induction ls as [|l ls IH]; intros s s' Rch R Hal H; cbn [fold_left] in H.
  - inversion H; subst. exact R.
  - inversion Hal as [|x xs Hl Hls]; subst. destruct (exec s l) as [s1|] eqn:E.
    + eapply (IH s1); [| |exact Hls|exact H].
      * eapply reach_step; [exact Rch|]. eapply exec_step. exact E.
      * eapply exec_settled; eauto.
    + exfalso. clear -H. induction ls as [|x xs IHx]; cbn in H; [discriminate|auto].
Qed.
Lemma settled_B2 s vc : settled s -> cur s n = Some vc -> B2 n vc (respq s).
Proof.
  intros [_ Sb] Hc k cv Hin Hn. destruct (Sb k cv Hin Hn) as [H|(A & B & C)]; [left; exact H|right]. repeat split; auto.
Qed.
End Settled.
