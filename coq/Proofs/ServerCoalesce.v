(* Coalescing: at most one outstanding fetch per key, in every reachable state of the server LTS. *)
From Coq Require Import NArith List Lia Bool Arith.
Import ListNotations.
From PM Require Import Model.Server.
Open Scope N_scope.

Section Co.
Context `{V:Version}.
Hypothesis root_off_nz : forall v, fst (root v) <> 0.

Lemma key_eqb_eq' a b : key_eqb a b = true <-> a = b.
Proof.
  unfold key_eqb. destruct a, b; cbn. rewrite !andb_true_iff, !N.eqb_eq. split.
  - intros [[[-> ->] ->] ->]; reflexivity.
  - intro H; inversion H; auto.
Qed.
Lemma key_eqb_refl k : key_eqb k k = true. Proof. apply key_eqb_eq'. reflexivity. Qed.

(* the key under which the root directory is pre-populated by a header fetch: no tag, not the header key *)
Definition prepop (k:key) : Prop := ke k = 0 /\ ~ (ko k = 0 /\ kl k = 0).
Definition prepopb (k:key) : bool := (ke k =? 0) && negb ((ko k =? 0) && (kl k =? 0)).
Lemma prepopb_spec k : prepopb k = true <-> prepop k.
Proof.
  unfold prepopb, prepop. rewrite andb_true_iff, negb_true_iff, andb_false_iff, N.eqb_eq, !N.eqb_neq. split.
  - intros [A [B|B]]; split; auto; intros [C D]; congruence.
  - intros [A B]. split; [exact A|]. destruct (N.eq_dec (ko k) 0); [right; intro; apply B; auto|left; assumption].
Qed.
Definition sane (k:key) : Prop := ~ prepop k.

Definition ikeys (s:sys) : list key := map fst (inflight s).
Definition rkeys (s:sys) : list key := map fst (respq s).
Definition qkeys (s:sys) : list key := map (fun x => snd (fst x)) (reqq s).
Definition cv_nz (cv:cval) : Prop := cv_ok cv = true -> match cv_pay cv with Some (PHeader v) => vtag v <> 0 | _ => True end.
Definition h_nz (h:hstate) : Prop := match h with HWaitDir _ _ _ hv _ _ _ => vtag hv <> 0 | HWaitTile _ _ hv _ _ => vtag hv <> 0 | _ => True end.

Record Co (s:sys) : Prop := {
  E1 : NoDup (fetches s);
  E2 : forall k, In k (fetches s) -> In k (ikeys s);
  E3 : forall k, In k (rkeys s) -> ~ In k (fetches s);
  E4 : forall k, In k (rkeys s) -> In k (ikeys s) \/ prepop k;
  E5 : NoDup (filter (fun k => negb (prepopb k)) (rkeys s));
  E6 : forall k, In k (qkeys s) -> sane k;
  E7 : forall k, In k (ikeys s) -> sane k;
  E8 : forall rid h, In (rid, h) (handlers s) -> h_nz h;
  E9 : (forall k cv, In (k, cv) (cache s) -> cv_nz cv) /\ (forall k cv, In (k, cv) (respq s) -> cv_nz cv);
  E10 : forall n v, cur s n = Some v -> vtag v <> 0;
  E11 : forall k, In k (ikeys s) -> In k (fetches s) \/ In k (rkeys s);      (* an in-flight key is being fetched or its response is queued *)
  E12 : forall k cv, In (k, cv) (cache s) -> cv_ok cv = true                  (* failed results are never cached *)
}.

Lemma lookup_in {A} k : forall (m:list (key * A)) a, lookup k m = Some a -> In (k, a) m.
Proof.
  induction m as [|[k' a'] r IH]; intros a H; cbn in H; [discriminate|].
  destruct (key_eqb k k') eqn:E; [apply key_eqb_eq' in E; subst; inversion H; left; reflexivity|right; apply IH; exact H].
Qed.
Lemma lookup_none {A} k : forall (m:list (key * A)), lookup k m = None -> ~ In k (map fst m).
Proof.
  induction m as [|[k' a'] r IH]; intros H Hin; cbn in *; [exact Hin|].
  destruct (key_eqb k k') eqn:E; [discriminate|]. destruct Hin as [->|Hin]; [rewrite key_eqb_refl in E; discriminate|exact (IH H Hin)].
Qed.
Lemma lookup_some_key {A} k (m:list (key * A)) a : lookup k m = Some a -> In k (map fst m).
Proof. intro H. apply lookup_in in H. apply (in_map fst) in H. exact H. Qed.
Lemma remove_key_keys {A} k (m:list (key * A)) x : In x (map fst (remove_key k m)) <-> In x (map fst m) /\ x <> k.
Proof.
  unfold remove_key. rewrite !in_map_iff. split.
  - intros [[k' a] [<- Hf]]. apply filter_In in Hf. destruct Hf as [Hin Hn]. cbn in *. split; [exists (k', a); auto|].
    apply negb_true_iff in Hn. intro; subst. rewrite key_eqb_refl in Hn. discriminate.
  - intros [[[k' a] [<- Hin]] Hne]. exists (k', a). split; [reflexivity|]. apply filter_In. split; [exact Hin|]. cbn.
    apply negb_true_iff. destruct (key_eqb k k') eqn:E; [apply key_eqb_eq' in E; subst; contradiction|reflexivity].
Qed.
Lemma get_handler_in rid : forall hs h, get_handler rid hs = Some h -> In (rid, h) hs.
Proof.
  induction hs as [|[r x] t IH]; intros h H; cbn in H; [discriminate|].
  destruct (Nat.eqb_spec r rid) as [->|_]; [inversion H; left; reflexivity|right; apply IH; exact H].
Qed.
Lemma set_handler_in rid h hs rid' h' : In (rid', h') (set_handler rid h hs) -> (h = Some h' /\ rid' = rid) \/ In (rid', h') hs.
Proof.
  unfold set_handler. intro H. destruct h as [x|].
  - destruct H as [E|H]; [inversion E; left; auto|]. apply filter_In in H. right. tauto.
  - apply filter_In in H. right. tauto.
Qed.

(* ---- handler outputs *)
Definition out_ok (o:hout) : Prop :=
  match o with HO h rq _ => (match h with Some x => h_nz x | None => True end) /\ (match rq with Some (k, _) => sane k | None => True end) end.
Lemma hdrkey_sane n : sane (hdrkey n).
Proof. unfold sane, prepop, hdrkey. cbn. tauto. Qed.
Lemma tagged_sane n e o l : e <> 0 -> sane (mkK n e o l).
Proof. unfold sane, prepop. cbn. tauto. Qed.
Lemma retry_ok m q a hv : out_ok (retry m q a hv).
Proof. unfold retry. destruct a; cbn; [split; [exact I|apply hdrkey_sane]|tauto]. Qed.
Lemma deliver_ok m h cv : h_nz h -> cv_nz cv -> out_ok (deliver m h cv).
Proof.
  intros Hh Hc. destruct h as [w q a|w q a hv o l d|q a hv o l]; cbn [deliver].
  - unfold cv_nz in Hc. destruct (cv_ok cv) eqn:Eo; cbn [negb]; [|cbn; tauto]. specialize (Hc eq_refl).
    destruct (cv_pay cv) as [[hv|v o l]|]; try (cbn; tauto).
    destruct (t_kind q =? 0); cbn [negb]; [|cbn; split; [exact Hc|exact I]].
    destruct (zoom_ok hv (t_z q)); cbn [negb]; [|cbn; tauto]. destruct (ext_ok hv (t_ext q)); cbn [negb]; [|cbn; tauto].
    cbn. split; [exact Hc|apply tagged_sane; exact Hc].
  - cbn in Hh. destruct (cv_bad cv); [apply retry_ok|]. destruct (cv_ok cv); cbn [negb]; [|cbn; tauto].
    destruct (cv_pay cv) as [[v|v' o' l']|]; try (cbn; tauto).
    destruct (dir_lookup v' o' l' (t_id q)) as [|to tl|lo ll]; try (cbn; tauto).
    destruct (Nat.leb 3 d); cbn; [tauto|]. split; [exact Hh|apply tagged_sane; exact Hh].
  - cbn. cbn in Hh. tauto.
Qed.

Lemma apply_out_co s rid o : Co s -> out_ok o -> Co (apply_out s rid o).
Proof.
  intros [e1 e2 e3 e4 e5 e6 e7 e8 e9 e10 e11 e12] Ho. destruct o as [h rq dn]. destruct Ho as [Hh Hr].
  constructor; cbn [apply_out fetches inflight respq cache cur handlers reqq]; auto; try exact e11; try exact e12.
  - intros k Hk. unfold qkeys in Hk. cbn [reqq] in Hk. destruct rq as [[k' p]|]; [|apply e6; exact Hk].
    rewrite map_app in Hk. apply in_app_or in Hk. destruct Hk as [Hk|[<-|[]]]; [apply e6; exact Hk|exact Hr].
  - intros rid' h' Hin. apply set_handler_in in Hin. destruct Hin as [[-> _]|Hin]; [exact Hh|eapply e8; exact Hin].
Qed.
Lemma deliver_to_co s mr cv : Co s -> cv_nz cv -> Co (deliver_to s mr cv).
Proof.
  intros Hs Hc. unfold deliver_to. destruct (get_handler (snd mr) (handlers s)) as [h|] eqn:Eh; [|exact Hs].
  destruct (waiting h) as [w|]; [|exact Hs]. destruct (Nat.eqb w (fst mr)); [|exact Hs].
  apply apply_out_co; [exact Hs|]. apply deliver_ok; [|exact Hc]. apply (E8 s Hs (snd mr)). apply get_handler_in. exact Eh.
Qed.
Lemma fold_deliver_co cv : cv_nz cv -> forall ws s, Co s -> Co (fold_left (fun st mr => deliver_to st mr cv) ws s).
Proof. intros Hc. induction ws as [|w r IH]; intros s Hs; cbn [fold_left]; [exact Hs|]. apply IH. apply deliver_to_co; assumption. Qed.

(* deliver_to and apply_out do not touch the fetch bookkeeping *)
Lemma apply_out_same s rid o : fetches (apply_out s rid o) = fetches s /\ inflight (apply_out s rid o) = inflight s /\ respq (apply_out s rid o) = respq s.
Proof. destruct o; cbn; auto. Qed.

Lemma NoDup_app_singleton (l:list key) x : NoDup l -> ~ In x l -> NoDup (l ++ [x]).
Proof.
  intros Hn Hx. induction l as [|y r IH]; cbn; [constructor; [intros []|constructor]|].
  inversion Hn as [|? ? Hy Hr]; subst. constructor.
  - intro H. apply in_app_or in H. destruct H as [H|[->|[]]]; [exact (Hy H)|apply Hx; left; reflexivity].
  - apply IH; [exact Hr|]. intro H. apply Hx. right. exact H.
Qed.
Lemma Co_init : Co init.
Proof. constructor; cbn; try (intros; contradiction); try constructor; try discriminate; intros; contradiction. Qed.

(* projections of [upd] *)
Lemma qkeys_split s pre x post : reqq s = pre ++ x :: post -> forall k, In k (map (fun y : nat * nat * key * N => snd (fst y)) (pre ++ post)) -> In k (qkeys s).
Proof. intros H k Hk. unfold qkeys. rewrite H. rewrite map_app in *. apply in_app_or in Hk. apply in_or_app. destruct Hk; [left|right; right]; assumption. Qed.
Lemma filter_np_app (a b:list key) : filter (fun k => negb (prepopb k)) (a ++ b) = filter (fun k => negb (prepopb k)) a ++ filter (fun k => negb (prepopb k)) b.
Proof. apply filter_app. Qed.
Lemma NoDup_filter_remove (l1 l2:list key) x : NoDup (filter (fun k => negb (prepopb k)) (l1 ++ x :: l2)) -> NoDup (filter (fun k => negb (prepopb k)) (l1 ++ l2)).
Proof.
  rewrite !filter_np_app. cbn [filter]. destruct (negb (prepopb x)); [apply NoDup_remove_1|auto].
Qed.
Lemma purge_sub n e (m:list (key * cval)) x : In x (purge n e m) -> In x m.
Proof. unfold purge. intro H. apply filter_In in H. tauto. Qed.

Theorem step_co s s' : Co s -> step s s' -> Co s'.
Proof.
  intros Hs Hst. destruct Hst as [s rid q Hn|s pre m rid k p post Hq|s pre k post Hf|s pre k cv post Hr|s k|s rid q a hv o l Hh|s pre k post bad Hf|s rid q a hv o l kind Hh|s n v Hv Hfresh|s n].
  - (* start *)
    destruct Hs as [e1 e2 e3 e4 e5 e6 e7 e8 e9 e10 e11 e12]. constructor; cbn [fetches inflight respq cache cur handlers reqq ikeys rkeys]; auto; try exact e11; try exact e12.
    + intros k Hk. unfold qkeys in Hk. cbn [reqq] in Hk. rewrite map_app in Hk. apply in_app_or in Hk. destruct Hk as [Hk|[<-|[]]]; [apply e6; exact Hk|apply hdrkey_sane].
    + intros rid' h' Hin. apply set_handler_in in Hin. destruct Hin as [[E _]|Hin]; [inversion E; exact I|eapply e8; exact Hin].
  - (* the loop takes a request *)
    assert (Hk : sane k) by (apply (E6 s Hs); unfold qkeys; rewrite Hq, map_app; apply in_or_app; right; left; reflexivity).
    assert (Hc1 : forall k0 cv0, In (k0, cv0) c1 -> cv_nz cv0).
    { intros k0 cv0 Hin. apply (proj1 (E9 s Hs) k0). unfold c1 in Hin. destruct (p =? 0); [exact Hin|eapply purge_sub; exact Hin]. }
    (* the state with the request removed and the cache purged *)
    assert (Hbase : forall i f, (forall x, In x (map fst i) <-> In x (ikeys s) \/ (x = k /\ f = k :: fetches s)) -> (f = fetches s \/ (f = k :: fetches s /\ ~ In k (ikeys s))) ->
              Co (upd s c1 i (pre ++ post) (respq s) f)).
    { intros i f Hi Hf0. destruct Hs as [e1 e2 e3 e4 e5 e6 e7 e8 e9 e10 e11 e12].
      constructor; unfold ikeys, rkeys, qkeys; cbn [upd fetches inflight respq cache cur handlers reqq]; auto; try exact e11; try exact e12.
      - destruct Hf0 as [->|[-> Hni]]; [exact e1|]. constructor; [intro Hin; apply Hni; apply e2; exact Hin|exact e1].
      - intros x Hx. apply Hi. destruct Hf0 as [->|[-> Hni]]; [left; apply e2; exact Hx|]. destruct Hx as [<-|Hx]; [right; auto|left; apply e2; exact Hx].
      - intros x Hx Hin. destruct Hf0 as [->|[-> Hni]]; [exact (e3 x Hx Hin)|]. destruct Hin as [<-|Hin]; [|exact (e3 x Hx Hin)].
        destruct (e4 k Hx) as [H|H]; [exact (Hni H)|exact (Hk H)].
      - intros x Hx. destruct (e4 x Hx) as [H|H]; [left; apply Hi; left; exact H|right; exact H].
      - intros x Hx. apply e6. eapply qkeys_split; [exact Hq|exact Hx].
      - intros x Hx. apply Hi in Hx. destruct Hx as [Hx|[-> _]]; [apply e7; exact Hx|exact Hk].
      - split; [exact Hc1|apply e9].
      - intros x Hx. apply Hi in Hx. destruct Hx as [Hx|[-> Hfk]].
        + destruct (e11 x Hx) as [H|H]; [left|right; exact H]. destruct Hf0 as [->|[-> _]]; [exact H|right; exact H].
        + left. rewrite Hfk. left. reflexivity.
      - intros x cv0 Hin. apply (e12 x). unfold c1 in Hin. destruct (p =? 0); [exact Hin|eapply purge_sub; exact Hin]. }
    destruct (lookup k c1) as [cv|] eqn:El.
    + apply deliver_to_co; [|apply (Hc1 k); apply lookup_in; exact El].
      apply Hbase; [intro x; split; [intro H; left; exact H|intros [H|[_ H]]; [exact H|exfalso; clear -H; induction (fetches s) as [|y r IH]; [discriminate|inversion H; auto]]]|left; reflexivity].
    + destruct (lookup k (inflight s)) as [ws|] eqn:Ei.
      * apply Hbase; [|left; reflexivity]. intro x. cbn [map fst In]. rewrite remove_key_keys. fold (ikeys s). split.
        -- intros [<-|[H _]]; [left; eapply lookup_some_key; exact Ei|left; exact H].
        -- intros [H|[_ H]]; [|exfalso; clear -H; induction (fetches s) as [|y r IH]; [discriminate|inversion H; auto]].
           destruct (key_eqb x k) eqn:E; [apply key_eqb_eq' in E; left; auto|right; split; [exact H|intro; subst; rewrite key_eqb_refl in E; discriminate]].
      * apply Hbase; [|right; split; [reflexivity|apply lookup_none; exact Ei]]. intro x. cbn [map fst In]. fold (ikeys s). split.
        -- intros [<-|H]; [right; auto|left; exact H].
        -- intros [H|[-> _]]; [right; exact H|left; reflexivity].
  - (* a fetch reads the bucket *)
    destruct Hs as [e1 e2 e3 e4 e5 e6 e7 e8 e9 e10 e11 e12].
    assert (Hkf : In k (fetches s)) by (rewrite Hf; apply in_or_app; right; left; reflexivity).
    assert (Hks : sane k) by (apply e7; apply e2; exact Hkf).
    assert (Hnd : ~ In k (pre ++ post)) by (rewrite Hf in e1; apply NoDup_remove_2 in e1; exact e1).
    assert (Hres : forall x, In x (map fst (fetch_result s k)) -> x = k \/ prepop x).
    { intros x Hx. unfold fetch_result in Hx. destruct (cur s (kn k)) as [v|]; [|destruct Hx as [<-|[]]; left; reflexivity].
      destruct (negb (ke k =? 0) && negb (ke k =? vtag v)); [destruct Hx as [<-|[]]; left; reflexivity|].
      destruct ((ko k =? 0) && (kl k =? 0)); [|destruct Hx as [<-|[]]; left; reflexivity].
      destruct Hx as [<-|[<-|[]]]; [right|left; reflexivity]. unfold prepop. cbn. split; [reflexivity|]. intros [H _]. exact (root_off_nz v H). }
    assert (Hres1 : filter (fun x => negb (prepopb x)) (map fst (fetch_result s k)) = [k]).
    { assert (Hnp : prepopb k = false) by (destruct (prepopb k) eqn:E; [apply prepopb_spec in E; contradiction|reflexivity]).
      unfold fetch_result. destruct (cur s (kn k)) as [v|]; [|cbn; rewrite Hnp; reflexivity].
      destruct (negb (ke k =? 0) && negb (ke k =? vtag v)); [cbn; rewrite Hnp; reflexivity|].
      destruct ((ko k =? 0) && (kl k =? 0)); [|cbn; rewrite Hnp; reflexivity].
      cbn [map fst filter]. rewrite Hnp. cbn [negb].
      assert (Hp : prepopb (mkK (kn k) 0 (fst (root v)) (snd (root v))) = true).
      { apply prepopb_spec. unfold prepop. cbn. split; [reflexivity|]. intros [H _]. exact (root_off_nz v H). }
      rewrite Hp. reflexivity. }
    constructor; unfold ikeys, rkeys, qkeys; cbn [upd fetches inflight respq cache cur handlers reqq]; auto; try exact e11; try exact e12.
    + rewrite Hf in e1. apply NoDup_remove_1 in e1. exact e1.
    + intros x Hx. apply e2. rewrite Hf. apply in_app_or in Hx. apply in_or_app. destruct Hx; [left|right; right]; assumption.
    + intros x Hx Hin. rewrite map_app in Hx. apply in_app_or in Hx. destruct Hx as [Hx|Hx].
      * apply (e3 x Hx). rewrite Hf. apply in_app_or in Hin. apply in_or_app. destruct Hin; [left|right; right]; assumption.
      * destruct (Hres x Hx) as [->|Hp]; [exact (Hnd Hin)|]. apply (e7 x); [|exact Hp]. apply e2. rewrite Hf. apply in_app_or in Hin. apply in_or_app. destruct Hin; [left|right; right]; assumption.
    + intros x Hx. rewrite map_app in Hx. apply in_app_or in Hx. destruct Hx as [Hx|Hx]; [apply e4; exact Hx|].
      destruct (Hres x Hx) as [->|Hp]; [left; apply e2; exact Hkf|right; exact Hp].
    + rewrite map_app, filter_np_app, Hres1. apply NoDup_app_singleton; [exact e5|]. intro Hin. apply filter_In in Hin. exact (e3 k (proj1 Hin) Hkf).
    + split; [apply e9|]. intros x cv Hin. apply in_app_or in Hin. destruct Hin as [Hin|Hin]; [eapply (proj2 e9); exact Hin|].
      unfold fetch_result in Hin. unfold cv_nz. destruct (cur s (kn k)) as [v|] eqn:Ec; [|destruct Hin as [E|[]]; inversion E; cbn; discriminate].
      destruct (negb (ke k =? 0) && negb (ke k =? vtag v)); [destruct Hin as [E|[]]; inversion E; cbn; discriminate|].
      destruct ((ko k =? 0) && (kl k =? 0)).
      * destruct Hin as [E|[E|[]]]; inversion E; cbn; intros _; [exact I|exact (e10 _ _ Ec)].
      * destruct Hin as [E|[]]. inversion E. cbn. intros _. exact I.
    + assert (Hkres : In k (map fst (fetch_result s k))).
      { unfold fetch_result. destruct (cur s (kn k)) as [v|]; [|left; reflexivity].
        destruct (negb (ke k =? 0) && negb (ke k =? vtag v)); [left; reflexivity|]. destruct ((ko k =? 0) && (kl k =? 0)); [right; left; reflexivity|left; reflexivity]. }
      intros x Hx. destruct (e11 x Hx) as [H|H].
      * rewrite Hf in H. apply in_app_or in H. destruct H as [H|[<-|H]].
        -- left. apply in_or_app. left. exact H.
        -- right. rewrite map_app. apply in_or_app. right. exact Hkres.
        -- left. apply in_or_app. right. exact H.
      * right. rewrite map_app. apply in_or_app. left. exact H.
  - (* the loop takes a response *)
    assert (Hcv : cv_nz cv) by (apply (proj2 (E9 s Hs) k); rewrite Hr; apply in_or_app; right; left; reflexivity).
    apply fold_deliver_co; [exact Hcv|].
    destruct Hs as [e1 e2 e3 e4 e5 e6 e7 e8 e9 e10 e11 e12].
    assert (Hkr : In k (rkeys s)) by (unfold rkeys; rewrite Hr, map_app; apply in_or_app; right; left; reflexivity).
    constructor; unfold ikeys, rkeys, qkeys; cbn [upd fetches inflight respq cache cur handlers reqq]; auto; try exact e11; try exact e12.
    + intros x Hx. apply remove_key_keys. split; [apply e2; exact Hx|]. intros ->. exact (e3 k Hkr Hx).
    + intros x Hx. apply e3. unfold rkeys. rewrite Hr. rewrite map_app in *. apply in_app_or in Hx. apply in_or_app. destruct Hx; [left|right; right]; assumption.
    + intros x Hx.
      assert (Hx' : In x (rkeys s)) by (unfold rkeys; rewrite Hr; rewrite map_app in *; apply in_app_or in Hx; apply in_or_app; destruct Hx; [left|right; right]; assumption).
      destruct (e4 x Hx') as [Hi|Hp]; [|right; exact Hp].
      destruct (prepopb x) eqn:Ep; [right; apply prepopb_spec; exact Ep|]. left. apply remove_key_keys. split; [exact Hi|]. intros ->.
      (* k would occur twice among the untagged-free response keys *)
      unfold rkeys in e5. rewrite Hr, map_app in e5. cbn [map fst] in e5. rewrite filter_np_app in e5. cbn [filter] in e5. rewrite Ep in e5. cbn [negb] in e5.
      apply NoDup_remove_2 in e5. apply e5. rewrite <- filter_np_app. apply filter_In. split; [rewrite <- map_app; exact Hx|rewrite Ep; reflexivity].
    + unfold rkeys in e5. rewrite Hr, map_app in e5. cbn [map fst] in e5. rewrite map_app. eapply NoDup_filter_remove. exact e5.
    + intros x Hx. apply remove_key_keys in Hx. apply e7. tauto.
    + split.
      * intros x cv0 Hin. destruct (cv_ok cv); [destruct Hin as [E|Hin]; [inversion E; subst; exact Hcv|eapply (proj1 e9); exact Hin]|eapply (proj1 e9); exact Hin].
      * intros x cv0 Hin. apply (proj2 e9 x). rewrite Hr. apply in_app_or in Hin. apply in_or_app. destruct Hin; [left|right; right]; assumption.
    + intros x Hx. apply remove_key_keys in Hx. destruct Hx as [Hx Hne]. destruct (e11 x Hx) as [H|H]; [left; exact H|right].
      unfold rkeys in H. rewrite Hr, map_app in H. rewrite map_app. apply in_app_or in H. apply in_or_app.
      destruct H as [H|[H|H]]; [left; exact H|cbn in H; congruence|right; exact H].
    + intros x cv0 Hin. destruct (cv_ok cv) eqn:Eok; [destruct Hin as [E|Hin]; [inversion E; subst; exact Eok|eapply e12; exact Hin]|eapply e12; exact Hin].
  - (* eviction *)
    destruct Hs as [e1 e2 e3 e4 e5 e6 e7 e8 e9 e10 e11 e12]. constructor; unfold ikeys, rkeys, qkeys; cbn [upd fetches inflight respq cache cur handlers reqq]; auto; try exact e11; try exact e12.
    + split; [|apply e9]. intros x cv Hin. unfold remove_key in Hin. apply filter_In in Hin. eapply (proj1 e9). exact (proj1 Hin).
    + intros x cv Hin. unfold remove_key in Hin. apply filter_In in Hin. eapply e12. exact (proj1 Hin).
  - (* tile read *)
    assert (Hnz : vtag hv <> 0) by (apply (E8 s Hs rid (HWaitTile q a hv o l)); apply get_handler_in; exact Hh).
    destruct (cur s (t_name q)) as [v|]; [|apply apply_out_co; [exact Hs|cbn; tauto]].
    destruct (vtag v =? vtag hv); apply apply_out_co; try exact Hs; [cbn; tauto|apply retry_ok].
  - (* a fetch fails *)
    destruct Hs as [e1 e2 e3 e4 e5 e6 e7 e8 e9 e10 e11 e12].
    assert (Hkf : In k (fetches s)) by (rewrite Hf; apply in_or_app; right; left; reflexivity).
    assert (Hks : sane k) by (apply e7; apply e2; exact Hkf).
    assert (Hnd : ~ In k (pre ++ post)) by (rewrite Hf in e1; apply NoDup_remove_2 in e1; exact e1).
    assert (Hnp : prepopb k = false) by (destruct (prepopb k) eqn:E; [apply prepopb_spec in E; contradiction|reflexivity]).
    constructor; unfold ikeys, rkeys, qkeys; cbn [upd fetches inflight respq cache cur handlers reqq]; auto; try exact e11; try exact e12.
    + rewrite Hf in e1. apply NoDup_remove_1 in e1. exact e1.
    + intros x Hx. apply e2. rewrite Hf. apply in_app_or in Hx. apply in_or_app. destruct Hx; [left|right; right]; assumption.
    + intros x Hx Hin. rewrite map_app in Hx. apply in_app_or in Hx. destruct Hx as [Hx|[<-|[]]]; [|exact (Hnd Hin)].
      apply (e3 x Hx). rewrite Hf. apply in_app_or in Hin. apply in_or_app. destruct Hin; [left|right; right]; assumption.
    + intros x Hx. rewrite map_app in Hx. apply in_app_or in Hx. destruct Hx as [Hx|[<-|[]]]; [apply e4; exact Hx|left; apply e2; exact Hkf].
    + rewrite map_app, filter_np_app. cbn [map fst filter]. rewrite Hnp. cbn [negb]. apply NoDup_app_singleton; [exact e5|]. intro Hin. apply filter_In in Hin. exact (e3 k (proj1 Hin) Hkf).
    + split; [apply e9|]. intros x cv Hin. apply in_app_or in Hin. destruct Hin as [Hin|[E|[]]]; [eapply (proj2 e9); exact Hin|]. inversion E. unfold cv_nz, failv. cbn. discriminate.
    + intros x Hx. destruct (e11 x Hx) as [H|H].
      * rewrite Hf in H. apply in_app_or in H. destruct H as [H|[<-|H]].
        -- left. apply in_or_app. left. exact H.
        -- right. rewrite map_app. apply in_or_app. right. left. reflexivity.
        -- left. apply in_or_app. right. exact H.
      * right. rewrite map_app. apply in_or_app. left. exact H.
  - (* a tile read fails *)
    apply apply_out_co; [exact Hs|]. destruct kind; [apply retry_ok|cbn; tauto|cbn; tauto].
  - (* replacement *)
    destruct Hs as [e1 e2 e3 e4 e5 e6 e7 e8 e9 e10 e11 e12]. constructor; unfold ikeys, rkeys, qkeys; cbn [fetches inflight respq cache cur handlers reqq]; auto; try exact e11; try exact e12.
    intros m v' H. destruct (m =? n); [inversion H; subst; exact Hv|eapply e10; exact H].
  - (* deletion *)
    destruct Hs as [e1 e2 e3 e4 e5 e6 e7 e8 e9 e10 e11 e12]. constructor; unfold ikeys, rkeys, qkeys; cbn [fetches inflight respq cache cur handlers reqq]; auto; try exact e11; try exact e12.
    intros m v' H. destruct (m =? n); [discriminate|eapply e10; exact H].
Qed.

Theorem reach_co s : reach s -> Co s.
Proof. induction 1 as [|s s' R IH St]; [apply Co_init|eapply step_co; eassumption]. Qed.
(* at most one outstanding fetch per key; a key whose response is queued is not being fetched again *)
Theorem coalesced s : reach s -> NoDup (fetches s) /\ (forall k, In k (fetches s) -> In k (ikeys s)) /\ (forall k, In k (rkeys s) -> ~ In k (fetches s)).
Proof. intro R. destruct (reach_co s R) as [e1 e2 e3 _ _ _ _ _ _ _ _ _]. auto. Qed.
End Co.
