(* Theorems about the cluster model: the tile-to-content map is preserved; the result passes the verify model. *)
From Coq Require Import NArith ZArith List Lia Arith Bool.
Import ListNotations.
From PM Require Import Model.Varint Model.Directory Model.Header Model.TileId Model.FindTile Model.Resolver Model.Archive
  Model.Verify Model.Cluster Proofs.Resolver Proofs.Cluster.
Open Scope N_scope.

Lemma cover_some l id e : cover l id = Some e -> In e l /\ tid e <= id /\ id < tid e + run e.
Proof.
  unfold cover. intro H. apply find_some in H. destruct H as [Hin Hc]. unfold covers in Hc.
  apply andb_true_iff in Hc. destruct Hc as [A B]. apply N.leb_le in A. apply N.ltb_lt in B. auto.
Qed.
Lemma cover_none l id : cover l id = None -> forall e, In e l -> ~ (tid e <= id /\ id < tid e + run e).
Proof.
  unfold cover. intros H e Hin [A B]. pose proof (find_none _ _ H e Hin) as Hc. unfold covers in Hc.
  apply andb_false_iff in Hc. destruct Hc as [Hc|Hc]; [apply N.leb_gt in Hc|apply N.ltb_ge in Hc]; lia.
Qed.
Lemma cover_exists l id e : In e l -> tid e <= id -> id < tid e + run e -> exists e', cover l id = Some e'.
Proof.
  intros Hin A B. destruct (cover l id) eqn:E; [eauto|]. exfalso. eapply cover_none; eauto.
Qed.

Lemma achain_lower : forall es lo e, achain lo es -> In e es -> lo <= tid e.
Proof.
  induction es as [|x r IH]; intros lo e H Hin; [contradiction|]. cbn in H. destruct H as (A & B & C).
  destruct Hin as [<-|Hin]; [exact A|]. specialize (IH _ _ C Hin). lia.
Qed.
Lemma achain_unique : forall es lo e1 e2 id, achain lo es -> In e1 es -> In e2 es ->
  tid e1 <= id -> id < tid e1 + run e1 -> tid e2 <= id -> id < tid e2 + run e2 -> e1 = e2.
Proof.
  induction es as [|x r IH]; intros lo e1 e2 id H H1 H2 A1 B1 A2 B2; [contradiction|].
  cbn in H. destruct H as (A & B & C).
  destruct H1 as [<-|H1]; destruct H2 as [<-|H2]; auto.
  - pose proof (achain_lower _ _ _ C H2). lia.
  - pose proof (achain_lower _ _ _ C H1). lia.
  - eapply IH; eauto.
Qed.

Section ClusterThm.
Variable hash : bytes -> bytes.
Hypothesis no_collision : forall d1 d2, hash d1 = hash d2 -> d1 = d2.
Notation idenc := (fun b : bytes => b).

Lemma inputs_nonempty a : awf a -> Forall (fun x => 0 < blen (idenc (snd (fst x)))) (cluster_inputs a).
Proof.
  intros [_ Hw]. unfold cluster_inputs. apply Forall_forall. intros x Hx. apply in_map_iff in Hx.
  destruct Hx as (e & <- & He). cbn [fst snd]. rewrite Forall_forall in Hw. destruct (Hw e He) as (L & B & _).
  unfold content_at, slice, blen in *. rewrite firstn_length, skipn_length. lia.
Qed.

Lemma said_cluster a id d : said (cluster_inputs a) id d <->
  exists e, In e (a_entries a) /\ d = content_at (a_data a) e /\ tid e <= id /\ id < tid e + run e.
Proof.
  unfold said, cluster_inputs. split.
  - intros (i & rl & Hin & A & B). apply in_map_iff in Hin. destruct Hin as (e & E & He). inversion E; subst. eauto.
  - intros (e & He & -> & A & B). exists (tid e), (run e). split; [|auto]. apply in_map_iff. exists e. auto.
Qed.

Theorem cluster_tile_map dedup a rl ml ll a' :
  awf a -> cluster hash dedup a rl ml ll = COk a' -> forall id, content_of a' id = content_of a id.
Proof.
  intros Hwf Hc id. unfold cluster in Hc. destruct (a_hdr a F_clustered =? 1)%Z; [discriminate|].
  set (st := add_all idenc hash dedup (cluster_inputs a)) in *.
  destruct (finalize dedup (upd (a_hdr a) F_clustered 1%Z) st rl ml ll) as [h'|]; [|discriminate].
  inversion Hc; subst a'. clear Hc. unfold content_of. cbn [a_entries a_data].
  pose proof (add_all_inv idenc hash no_collision dedup _ (inputs_nonempty a Hwf)) as R. fold st in R.
  pose proof (add_all_inv2 idenc hash no_collision dedup _ (inputs_nonempty a Hwf)) as I2. fold st in I2.
  destruct Hwf as [Hch Hw].
  destruct (cover (entries_of st) id) as [e'|] eqn:Enew.
  - apply cover_some in Enew. destruct Enew as (Hin & A & B). unfold entries_of in Hin. apply in_rev in Hin.
    destruct (R_sound _ _ _ _ R e' Hin) as (c & Hc & Hl & Hcov).
    destruct (Hcov id (conj A B)) as (d & Hs & Hd). subst c.
    apply said_cluster in Hs. destruct Hs as (e & He & -> & A' & B').
    destruct (cover_exists _ _ _ He A' B') as (e0 & E0). rewrite E0. cbn [option_map]. f_equal.
    apply cover_some in E0. destruct E0 as (He0 & A0 & B0).
    assert (e0 = e) by (eapply achain_unique; eauto). subst e0.
    unfold content_at at 1. rewrite Hl. unfold data_of. apply slookup_in in Hc.
    eapply data_slice; [apply (I_store _ _ I2)|exact Hc].
  - destruct (cover (a_entries a) id) as [e|] eqn:Eold; [|reflexivity]. exfalso.
    apply cover_some in Eold. destruct Eold as (He & A & B).
    assert (Hs: said (cluster_inputs a) id (content_at (a_data a) e)) by (apply said_cluster; eauto).
    destruct (R_complete _ _ _ _ R _ _ Hs) as (e' & Hin & [A' B']).
    eapply (cover_none _ _ Enew e'); [unfold entries_of; apply -> in_rev; exact Hin|auto].
Qed.
End ClusterThm.

(* ---- the result passes the verify model *)
Lemma rev_head_last {A} (l:list A) x t d : rev l = x :: t -> last l d = x.
Proof.
  intro H. assert (E: l = rev (x :: t)) by (rewrite <- H, rev_involutive; reflexivity). subst l.
  cbn [rev]. apply last_last.
Qed.
Lemma rev_last_head {A} (l:list A) x t d : l = x :: t -> last (rev l) d = x.
Proof. intros ->. cbn [rev]. apply last_last. Qed.

Lemma achain_ichain a : forall es lo, achain lo es ->
  ichain lo (map (fun e => (tid e, content_at (a_data a) e, run e)) es).
Proof. induction es as [|e r IH]; intros lo H; [exact I|]. cbn in *. destruct H as (A & B & C). auto. Qed.

Lemma rchain_counts dl : forall l hi, rchain hi l ->
  v_addr (vfold dl l) <= hi /\ v_cnt (vfold dl l) <= hi /\ N.of_nat (length l) <= hi.
Proof.
  induction l as [|e r IH]; intros hi H; [cbn; lia|].
  cbn [rchain] in H. destruct H as (A & B & C). destruct (IH _ C) as (I1 & I2 & I3).
  unfold vfold in *. cbn [fold_right]. fold (vfold dl r) in *. unfold vstep. cbn [v_addr v_cnt length]. lia.
Qed.
Lemma iend_bound a : forall es lo, lo < 2^64 - 1 -> (forall e, In e es -> tid e + run e < 2^64 - 1) ->
  iend lo (map (fun e => (tid e, content_at (a_data a) e, run e)) es) < 2^64 - 1.
Proof.
  induction es as [|e r IH]; intros lo Hlo Hall; [exact Hlo|]. unfold iend in *. cbn [map fold_left].
  apply IH; [apply Hall; left; reflexivity|intros x Hx; apply Hall; right; exact Hx].
Qed.

Section Verifies.
Variable hash : bytes -> bytes.
Hypothesis no_collision : forall d1 d2, hash d1 = hash d2 -> d1 = d2.
Notation idenc := (fun b : bytes => b).

Theorem cluster_verifies dedup a rl ml ll a' :
  awf a -> cluster hash dedup a rl ml ll = COk a' ->
  (a_hdr a' F_min_lon < a_hdr a' F_max_lon)%Z -> (a_hdr a' F_min_lat < a_hdr a' F_max_lat)%Z ->
  (a_hdr a' F_min_zoom <= a_hdr a' F_center_zoom <= a_hdr a' F_max_zoom)%Z ->
  127 + rl + ml + ll + blen (a_data a') < 2^63 ->
  verify (a_hdr a') (Some (a_entries a')) (Z.of_N (127 + rl + ml + ll + blen (a_data a'))) = None.
Proof.
  intros Hwf Hc Hlon Hlat Hcz Hsize. unfold cluster in Hc. destruct (a_hdr a F_clustered =? 1)%Z; [discriminate|].
  set (st := add_all idenc hash dedup (cluster_inputs a)) in *.
  destruct (finalize dedup (upd (a_hdr a) F_clustered 1%Z) st rl ml ll) as [h'|] eqn:Efin; [|discriminate].
  inversion Hc; subst a'. clear Hc. cbn [a_hdr a_entries a_data] in *.
  pose proof (add_all_inv2 idenc hash no_collision dedup _ (inputs_nonempty a Hwf)) as I2. fold st in I2.
  pose proof (add_all_chain idenc hash dedup (cluster_inputs a) 0 (achain_ichain a _ _ (proj1 Hwf))) as Hch. fold st in Hch.
  pose proof (store_len _ _ (I_store _ _ I2)) as Hdl. fold (data_of st) in Hdl.
  (* fields of the written header *)
  unfold finalize, set_zoom_center in Efin.
  destruct (entries_of st) as [|e0 et] eqn:Eents; [discriminate|].
  set (h0 := upd (upd (upd (upd (a_hdr a) F_clustered 1%Z) F_addressed (Z.of_N (r_addr st))) F_entries (Z.of_nat (length (r_rev st)))) F_contents (Z.of_N (num_contents dedup st))) in *.
  set (zmin := Z.of_N (zoom_of (tid e0))) in *. set (zmax := Z.of_N (zoom_of (tid (last (e0 :: et) e0)))) in *.
  assert (F: h' F_root_off = 127%Z /\ h' F_root_len = Z.of_N rl /\ h' F_meta_off = Z.of_N (127 + rl) /\ h' F_meta_len = Z.of_N ml /\
             h' F_leaf_off = Z.of_N (127 + rl + ml) /\ h' F_leaf_len = Z.of_N ll /\ h' F_data_off = Z.of_N (127 + rl + ml + ll) /\
             h' F_data_len = Z.of_N (r_off st) /\ h' F_clustered = 1%Z /\ h' F_addressed = Z.of_N (r_addr st) /\
             h' F_entries = Z.of_nat (length (r_rev st)) /\ h' F_contents = Z.of_N (num_contents dedup st) /\
             h' F_min_zoom = zmin /\ h' F_max_zoom = zmax).
  { destruct ((h0 F_center_zoom =? 0) && (h0 F_center_lon =? 0) && (h0 F_center_lat =? 0))%Z;
      inversion Efin; subst h'; repeat split; reflexivity. }
  destruct F as (F1 & F2 & F3 & F4 & F5 & F6 & F7 & F8 & F9 & F10 & F11 & F12 & F13 & F14).
  (* the accumulation over the entries *)
  assert (Hro: r_off st < 2^64) by (rewrite <- Hdl; change (2^63) with 9223372036854775808 in Hsize; change (2^64) with 18446744073709551616; lia).
  pose proof (I_acc _ _ I2 (r_off st) (N.le_refl _) Hro) as A. cbv zeta in A.
  destruct A as (A1 & A2 & A3 & A4 & A5 & A6).
  assert (Hrev: r_rev st <> []) by (intro E; unfold entries_of in Eents; rewrite E in Eents; discriminate).
  destruct (r_rev st) as [|lst rest] eqn:Erev; [congruence|].
  assert (Hend: iend 0 (cluster_inputs a) < 2^64 - 1).
  { destruct Hwf as [_ Hw]. rewrite Forall_forall in Hw. unfold cluster_inputs. apply iend_bound.
    - change (2^64) with 18446744073709551616; lia.
    - intros e He. exact (proj2 (proj2 (Hw e He))). }
  assert (Hlst: tid lst < 2^64 - 1) by (cbn [rchain] in Hch; destruct Hch as (C1 & C2 & _); lia).
  destruct (rchain_counts (r_off st) _ _ Hch) as (K1 & K2 & K3).
  destruct (vfold_minmax (r_off st) rest lst _ Hch Hlst) as (M1 & M2 & M3).
  (* now run the checks *)
  unfold verify. unfold hN. rewrite F1, F3, F5, F7, F2, F4, F6, F8.
  change (Z.to_N 127 =? 0) with false. cbv iota.
  rewrite !N2Z.id.
  assert ((127 + rl =? 0) = false) as -> by (apply N.eqb_neq; lia).
  assert ((127 + rl + ml =? 0) = false) as -> by (apply N.eqb_neq; lia).
  assert ((127 + rl + ml + ll =? 0) = false) as -> by (apply N.eqb_neq; lia).
  rewrite Hdl in *.
  set (fs := 127 + rl + ml + ll + r_off st) in *.
  assert ((fs <? rl) = false) as -> by (apply N.ltb_ge; unfold fs; lia).
  assert ((fs <? ml) = false) as -> by (apply N.ltb_ge; unfold fs; lia).
  assert ((fs <? ll) = false) as -> by (apply N.ltb_ge; unfold fs; lia).
  assert ((fs <? r_off st) = false) as -> by (apply N.ltb_ge; unfold fs; lia).
  assert (Hi64: int64_of fs = Z.of_N fs).
  { unfold int64_of, w64. change (2^63) with 9223372036854775808 in *. change (2^64) with 18446744073709551616 in *.
    rewrite N.mod_small by lia. assert ((fs <? 9223372036854775808) = true) as -> by (apply N.ltb_lt; lia). reflexivity. }
  rewrite Hi64, Z.eqb_refl. cbn [orb negb].
  rewrite F9. change (1 =? 1)%Z with true.
  rewrite <- Eents. unfold entries_of. rewrite Erev. rewrite vfold_entries.
  rewrite A1, A5, A6, A4, M1, M2.
  rewrite F10, F11, F12, F13, F14. rewrite !N2Z.id.
  change (2^64) with 18446744073709551616 in *.
  assert (w64 (r_addr st) = r_addr st) as -> by (unfold w64; apply N.mod_small; rewrite <- A5; change (2^64) with 18446744073709551616; lia).
  rewrite N.eqb_refl. cbn [negb].
  rewrite <- nat_N_Z, N2Z.id.
  assert (w64 (N.of_nat (length (lst :: rest))) = N.of_nat (length (lst :: rest))) as -> by (unfold w64; apply N.mod_small; change (2^64) with 18446744073709551616; lia).
  rewrite N.eqb_refl. cbn [negb].
  assert (N.of_nat (length (r_store st)) = num_contents dedup st) as ->.
  { pose proof (I_count _ _ I2) as C. unfold num_contents. destruct dedup; rewrite C; reflexivity. }
  rewrite N.eqb_refl. cbn [negb].
  assert (Ee0: last rest lst = e0).
  { rewrite <- (last_cons rest lst e0). eapply rev_head_last. unfold entries_of in Eents. rewrite Erev in Eents. exact Eents. }
  rewrite Ee0. unfold zmin. rewrite N2Z.id, N.eqb_refl. cbn [negb].
  assert (Elst: last (e0 :: et) e0 = lst).
  { rewrite <- Eents. unfold entries_of. rewrite Erev. eapply rev_last_head. reflexivity. }
  unfold zmax. rewrite Elst, N2Z.id, N.eqb_refl. cbn [negb].
  rewrite F13, F14 in Hcz. unfold zmin, zmax in Hcz. rewrite Elst in Hcz.
  assert (((zoom_of (tid e0) <=? Z.to_N (h' F_center_zoom)) && (Z.to_N (h' F_center_zoom) <=? zoom_of (tid lst))) = true) as ->.
  { apply andb_true_iff. split; apply N.leb_le; lia. }
  cbn [negb].
  assert ((h' F_max_lon <=? h' F_min_lon)%Z = false) as -> by (apply Z.leb_gt; lia).
  assert ((h' F_max_lat <=? h' F_min_lat)%Z = false) as -> by (apply Z.leb_gt; lia).
  reflexivity.
Qed.
End Verifies.
