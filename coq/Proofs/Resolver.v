From Coq Require Import NArith List Lia Arith Bool.
Import ListNotations.
From PM Require Import Model.Varint Model.Directory Model.Resolver.
Open Scope N_scope.

Lemma bytes_eqb_spec a b : reflect (a = b) (bytes_eqb a b).
Proof.
  revert b; induction a as [|x a IH]; intros [|y b]; cbn; try (constructor; congruence).
  destruct (N.eqb_spec x y) as [->|Hne]; cbn.
  - destruct (IH b) as [->|Hne]; constructor; congruence.
  - constructor; congruence.
Qed.
Lemma bytes_eqb_refl a : bytes_eqb a a = true.
Proof. destruct (bytes_eqb_spec a a); congruence. Qed.

Fixpoint slookup (o:N) (s:list (N*bytes)) : option bytes :=
  match s with [] => None | (o',b)::r => if o =? o' then Some b else slookup o r end.

Section Resolver.
Variable enc : bytes -> bytes.
Variable hash : bytes -> bytes.

(* ---- semantics *)
Definition covers (e:entry) (id:N) : Prop := tid e <= id /\ id < tid e + run e.

(* the inputs so far say: tile id has content d *)
Definition said (inputs:list (N*bytes*N)) (id:N) (d:bytes) : Prop :=
  exists i rl, In (i,d,rl) inputs /\ i <= id /\ id < i + rl.

Hypothesis no_collision : forall d1 d2, hash d1 = hash d2 -> d1 = d2.

Record RInv (inputs:list (N*bytes*N)) (st:rst) : Prop := {
  (* every entry points at stored bytes that are the encoding of the content of every tile it covers *)
  R_sound : forall e, In e (r_rev st) -> exists c, slookup (off e) (r_store st) = Some c /\ len e = blen c /\
                                           forall id, covers e id -> exists d, said inputs id d /\ enc d = c;
  (* every tile the inputs mention is covered *)
  R_complete : forall id d, said inputs id d -> exists e, In e (r_rev st) /\ covers e id;
  (* hash table entries are backed by the store and by some entry *)
  R_map : forall h o l, mlookup h (r_map st) = Some (o,l) -> exists d, hash d = h /\ slookup o (r_store st) = Some (enc d) /\ l = blen (enc d) /\
                                                              exists e, In e (r_rev st) /\ off e = o;
  R_fresh : forall o b, In (o,b) (r_store st) -> o + blen b <= r_off st /\ 0 < blen b;
  R_addr : r_addr st = fold_left (fun a '(_,_,rl) => a + rl) inputs 0
}.

Lemma RInv_init : RInv [] (rinit).
Proof.
  constructor; cbn; intros; try contradiction; try discriminate; auto.
  destruct H as [i [rl [[] _]]].
Qed.

Lemma said_app inputs i d rl id d' : said (inputs ++ [(i,d,rl)]) id d' <-> said inputs id d' \/ (d' = d /\ i <= id /\ id < i + rl).
Proof.
  unfold said. split.
  - intros [i0 [rl0 [Hin Hr]]]. apply in_app_or in Hin. destruct Hin as [Hin|[E|[]]].
    + left. eauto.
    + inversion E; subst. right. tauto.
  - intros [[i0 [rl0 [Hin Hr]]]|[-> Hr]].
    + exists i0, rl0. split; [apply in_or_app; now left|exact Hr].
    + exists i, rl. split; [apply in_or_app; right; now left|exact Hr].
Qed.

Lemma slookup_in o s c : slookup o s = Some c -> In (o,c) s.
Proof.
  induction s as [|[o' b] r IH]; cbn; [discriminate|].
  destruct (N.eqb_spec o o') as [->|]; [intro E; inversion E; now left|intro; right; auto].
Qed.

Lemma slookup_grow (store:list (N*bytes)) (roff:N) o c nd :
  (forall o0 b0, In (o0,b0) store -> o0 + blen b0 <= roff /\ 0 < blen b0) ->
  slookup o store = Some c -> slookup o ((roff, nd) :: store) = Some c.
Proof.
  intros Hf Hs. cbn. destruct (N.eqb_spec o roff) as [->|]; [|exact Hs].
  exfalso. apply slookup_in in Hs. destruct (Hf _ _ Hs). lia.
Qed.

Lemma fold_addr (inputs:list (N*bytes*N)) i d rl a0 :
  fold_left (fun a '(_,_,r) => a + r) (inputs ++ [(i,d,rl)]) a0 = fold_left (fun a '(_,_,r) => a + r) inputs a0 + rl.
Proof. rewrite fold_left_app. reflexivity. Qed.

Theorem add_tile_inv dedup inputs st id d rl :
  0 < blen (enc d) ->
  RInv inputs st -> RInv (inputs ++ [(id,d,rl)]) (add_tile enc hash dedup st id d rl).
Proof.
  intros enc_nonempty I. unfold add_tile.
  set (found := if dedup then mlookup (hash d) (r_map st) else None).
  destruct found as [[o l]|] eqn:Ef.
  - (* content already stored *)
    assert (Hm: mlookup (hash d) (r_map st) = Some (o,l)) by (unfold found in Ef; destruct dedup; [exact Ef|discriminate]).
    destruct (R_map _ _ I _ _ _ Hm) as [d0 [Hh [Hst [Hl [e0 [He0 Hoff0]]]]]].
    apply no_collision in Hh. subst d0.
    destruct (r_rev st) as [|last rest] eqn:Erev; [contradiction|].
    destruct ((id =? tid last + run last) && (off last =? o)) eqn:Ecase.
    + (* run-length merge into the last entry *)
      apply andb_true_iff in Ecase. destruct Ecase as [E1 E2]. apply N.eqb_eq in E1, E2.
      constructor; cbn [r_rev r_off r_map r_store r_addr].
      * intros e [<-|Hin]; cbn [off len tid run].
        -- destruct (R_sound _ _ I last ltac:(rewrite Erev; now left)) as [c [Hc [Hlen Hcov]]].
           exists c. split; [exact Hc|]. split; [exact Hlen|].
           intros id' [Hlo Hhi]. cbn [tid run] in *.
           destruct (N.lt_ge_cases id' (tid last + run last)) as [Hold|Hnew].
           ++ destruct (Hcov id' ltac:(split; assumption)) as [d1 [Hs1 He1]]. exists d1. split; [|exact He1].
              apply said_app. now left.
           ++ exists d. split; [apply said_app; right; repeat split; lia|]. rewrite E2 in Hc. congruence.
        -- destruct (R_sound _ _ I e ltac:(rewrite Erev; now right)) as [c [Hc [Hlen Hcov]]].
           exists c. repeat split; auto. intros id' Hc'. destruct (Hcov id' Hc') as [d1 [Hs1 He1]]. exists d1. split; [apply said_app; now left|exact He1].
      * intros id' d' Hs. apply said_app in Hs. destruct Hs as [Hs|[-> [Hlo Hhi]]].
        -- destruct (R_complete _ _ I _ _ Hs) as [e [Hin Hcov]]. rewrite Erev in Hin. destruct Hin as [<-|Hin].
           ++ eexists. split; [now left|]. destruct Hcov. split; cbn; lia.
           ++ exists e. split; [now right|exact Hcov].
        -- eexists. split; [now left|]. split; cbn; lia.
      * intros h o' l' Hm'. destruct (R_map _ _ I _ _ _ Hm') as [d1 [H1 [H2 [H3 [e1 [He1 Ho1]]]]]].
        exists d1. repeat split; auto. rewrite Erev in He1. destruct He1 as [<-|He1].
        -- eexists. split; [now left|]. cbn. exact Ho1.
        -- exists e1. split; [now right|exact Ho1].
      * apply (R_fresh _ _ I).
      * rewrite fold_addr. rewrite (R_addr _ _ I). reflexivity.
    + (* new entry pointing at the stored content *)
      constructor; cbn [r_rev r_off r_map r_store r_addr].
      * intros e [<-|Hin]; cbn [off len tid run].
        -- exists (enc d). repeat split; auto. intros id' [Hlo Hhi]. cbn in *. exists d. split; [apply said_app; right; repeat split; lia|reflexivity].
        -- destruct (R_sound _ _ I e ltac:(rewrite Erev; exact Hin)) as [c [Hc [Hlen Hcov]]].
           exists c. repeat split; auto. intros id' Hc'. destruct (Hcov id' Hc') as [d1 [Hs1 He1]]. exists d1. split; [apply said_app; now left|exact He1].
      * intros id' d' Hs. apply said_app in Hs. destruct Hs as [Hs|[-> [Hlo Hhi]]].
        -- destruct (R_complete _ _ I _ _ Hs) as [e [Hin Hcov]]. exists e. split; [right; rewrite <- Erev; exact Hin|exact Hcov].
        -- eexists. split; [now left|]. split; cbn; lia.
      * intros h o' l' Hm'. destruct (R_map _ _ I _ _ _ Hm') as [d1 [H1 [H2 [H3 [e1 [He1 Ho1]]]]]].
        exists d1. repeat split; auto. exists e1. split; [right; rewrite <- Erev; exact He1|exact Ho1].
      * apply (R_fresh _ _ I).
      * rewrite fold_addr. rewrite (R_addr _ _ I). reflexivity.
  - (* new content *)
    constructor; cbn [r_rev r_off r_map r_store r_addr].
    + intros e [<-|Hin]; cbn [off len tid run].
      * exists (enc d). split; [cbn; now rewrite N.eqb_refl|]. split; [reflexivity|].
        intros id' [Hlo Hhi]. cbn in *. exists d. split; [apply said_app; right; repeat split; lia|reflexivity].
      * destruct (R_sound _ _ I e Hin) as [c [Hc [Hlen Hcov]]].
        exists c. split; [apply slookup_grow; [apply (R_fresh _ _ I)|exact Hc]|]. split; [exact Hlen|].
        intros id' Hc'. destruct (Hcov id' Hc') as [d1 [Hs1 He1]]. exists d1. split; [apply said_app; now left|exact He1].
    + intros id' d' Hs. apply said_app in Hs. destruct Hs as [Hs|[-> [Hlo Hhi]]].
      * destruct (R_complete _ _ I _ _ Hs) as [e [Hin Hcov]]. exists e. split; [now right|exact Hcov].
      * eexists. split; [now left|]. split; cbn; lia.
    + intros h o' l' Hm'.
      assert (Hcase: (dedup = true /\ h = hash d /\ o' = r_off st /\ l' = blen (enc d)) \/ mlookup h (r_map st) = Some (o',l')).
      { destruct dedup; [|now right]. cbn in Hm'. destruct (bytes_eqb_spec h (hash d)) as [->|]; [inversion Hm'; left; auto|now right]. }
      destruct Hcase as [[_ [-> [-> ->]]]|Hold].
      * exists d. split; [reflexivity|]. split; [cbn; now rewrite N.eqb_refl|]. split; [reflexivity|].
        eexists. split; [now left|reflexivity].
      * destruct (R_map _ _ I _ _ _ Hold) as [d1 [H1 [H2 [H3 [e1 [He1 Ho1]]]]]].
        exists d1. split; [exact H1|]. split; [apply slookup_grow; [apply (R_fresh _ _ I)|exact H2]|]. split; [exact H3|].
        exists e1. split; [now right|exact Ho1].
    + intros o' b [E|Hin].
      * inversion E; subst. split; [lia|exact enc_nonempty].
      * destruct (R_fresh _ _ I _ _ Hin). split; [lia|assumption].
    + rewrite fold_addr. rewrite (R_addr _ _ I). reflexivity.
Qed.

Lemma add_all_snoc dedup inputs x : add_all enc hash dedup (inputs ++ [x]) =
  (let '(id,d,rl) := x in add_tile enc hash dedup (add_all enc hash dedup inputs) id d rl).
Proof. unfold add_all. rewrite fold_left_app. cbn [fold_left]. destruct x as [[id d] rl]. reflexivity. Qed.

Theorem add_all_inv dedup : forall inputs,
  Forall (fun x => 0 < blen (enc (snd (fst x)))) inputs -> RInv inputs (add_all enc hash dedup inputs).
Proof.
  intro inputs. induction inputs as [|x inputs IH] using rev_ind; intro H.
  - apply RInv_init.
  - apply Forall_app in H. destruct H as [H1 H2]. inversion H2 as [|? ? Hx _]; subst.
    rewrite add_all_snoc. destruct x as [[id d] rl]. apply add_tile_inv; [exact Hx|apply IH; exact H1].
Qed.
End Resolver.
