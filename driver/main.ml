(* Driver for the extracted Coq models: reads one case per line on stdin (same lines the Go harness
   ran), prints one canonical result line per case on stdout. *)
module S = String
module L = List
type str = string
open Model

let rec pos_of_int n = if n = 1 then XH else if n land 1 = 0 then XO (pos_of_int (n lsr 1)) else XI (pos_of_int (n lsr 1))
let n_of_int d = if d = 0 then N0 else Npos (pos_of_int d)
let ten = n_of_int 10
(* decimal string -> N without going through a 63-bit int *)
let n_of_string (s:str) : n =
  let acc = ref N0 in
  S.iter (fun c -> acc := N.add (N.mul !acc ten) (n_of_int (Char.code c - 48))) s; !acc
let rec int_of_pos = function XH -> 1 | XO p -> 2 * int_of_pos p | XI p -> 2 * int_of_pos p + 1
let int_of_n = function N0 -> 0 | Npos p -> int_of_pos p
(* N -> decimal string, exact for any size *)
let string_of_n (x:n) : str =
  match x with N0 -> "0" | _ ->
  let buf = Buffer.create 24 in
  let rec go x acc = match x with N0 -> acc | _ ->
    let (q, r) = N.div_eucl x ten in go q (Char.chr (48 + int_of_n r) :: acc) in
  L.iter (Buffer.add_char buf) (go x []); Buffer.contents buf
let z_of_string (s:str) : z =
  if S.length s > 0 && s.[0] = '-' then
    (match n_of_string (S.sub s 1 (S.length s - 1)) with N0 -> Z0 | Npos p -> Zneg p)
  else (match n_of_string s with N0 -> Z0 | Npos p -> Zpos p)
let string_of_z = function Z0 -> "0" | Zpos p -> string_of_n (Npos p) | Zneg p -> "-" ^ string_of_n (Npos p)
let zbytes_of_hex h = if h = "-" then [] else
  L.init (S.length h / 2) (fun i -> match n_of_int (int_of_string ("0x" ^ S.sub h (2*i) 2)) with N0 -> Z0 | Npos p -> Zpos p)
let hex_of_zbytes bs = if bs = [] then "-" else
  S.concat "" (L.map (fun b -> Printf.sprintf "%02x" (match b with Z0 -> 0 | Zpos p -> int_of_pos p | Zneg _ -> 0)) bs)
let rec int_of_nat = function O -> 0 | S n -> 1 + int_of_nat n
let digest_bytes (bs:n list) : str =
  let b = Buffer.create 1024 in
  L.iter (fun x -> Buffer.add_char b (Char.chr (int_of_n x))) bs;
  Printf.sprintf "%d %s" (Buffer.length b) (Digest.to_hex (Digest.string (Buffer.contents b)))
let rec nat_of_int n = if n <= 0 then O else S (nat_of_int (n-1))
let bytes_of_hex h = if h = "-" then [] else
  L.init (S.length h / 2) (fun i -> n_of_int (int_of_string ("0x" ^ S.sub h (2*i) 2)))
let hex_of_bytes bs = if bs = [] then "-" else
  S.concat "" (L.map (fun b -> Printf.sprintf "%02x" (int_of_n b)) bs)

(* token stream *)
type toks = { mutable t : str list }
let tok ts = match ts.t with x :: r -> ts.t <- r; x | [] -> failwith "short line"
let tn ts = n_of_string (tok ts)
let ti ts = int_of_string (tok ts)
let tents ts = let n = ti ts in L.init n (fun _ ->
  let a = tn ts in let b = tn ts in let c = tn ts in let d = tn ts in { tid = a; off = b; len = c; run = d })
let ents_str es =
  S.concat " " (string_of_int (L.length es) ::
    L.concat_map (fun e -> [string_of_n e.tid; string_of_n e.off; string_of_n e.len; string_of_n e.run]) es)

let id_bytes (b:n list) : n list = b
let parse_arch ts : archive =
  let vs = L.init 25 (fun _ -> z_of_string (tok ts)) in
  let es = tents ts in
  let data = bytes_of_hex (tok ts) in
  let meta = bytes_of_hex (tok ts) in
  { a_hdr = list_header vs; a_entries = es; a_data = data; a_meta = meta }
let proj_str (h : nat -> z) : str =
  let f i = string_of_z (h (nat_of_int i)) in
  S.concat " " [f 9; f 10; f 11; f 12; f 13; f 14; f 15; f 16; f 17; f 18; f 19; f 20; f 21; f 22; f 23; f 24; f 8]

let coq_string_to_ocaml (s : Model.string) : str =
  let rec go acc = function EmptyString -> acc | String (c, r) -> go (acc ^ S.make 1 (Char.chr (int_of_n (n_of_ascii c)))) r in go "" s
let opt_str = function None -> "-" | Some s -> S.concat "" (S.split_on_char ' ' (coq_string_to_ocaml s))

(* ---- server schedules *)
let srv_case ts : str =
  let cache_mb = ti ts in
  let nv = ti ts in
  let vers = L.init nv (fun _ ->
    let _id = ti ts in let name = tn ts in let tag = tn ts in let minz = tn ts in let maxz = tn ts in let req = tn ts in
    let ro = tn ts in let rl = tn ts in let lb = tn ts in let tb = tn ts in
    let nd = ti ts in
    let dirs = L.init nd (fun _ -> let o = tn ts in let l = tn ts in let ok = ti ts in let raw = bytes_of_hex (tok ts) in
                                   ((o, l), if ok = 1 then Some raw else None)) in
    let file = bytes_of_hex (tok ts) in
    let mo = tn ts in let ml = tn ts in let mbody = bytes_of_hex (tok ts) in let jbody = bytes_of_hex (tok ts) in let hdrs = bytes_of_hex (tok ts) in
    (name, { c_tag = tag; c_minz = minz; c_maxz = maxz; c_ext = req; c_root = (ro, rl); c_leaf_base = lb; c_tile_base = tb; c_dirs = dirs; c_file = file;
             c_meta_off = mo; c_meta_len = ml; c_metabody = mbody; c_jsonbody = jbody; c_hdrs = hdrs })) in
  let _e = tok ts in let _n = ti ts in
  let name_str n = "a" ^ string_of_n n in
  let tag_str t = (match t with N0 -> "" | _ -> "v" ^ string_of_n t) in
  let st = ref (xinit (z_of_string (string_of_int (cache_mb * 1000000)))) in
  let printed = ref 0 in
  let out = ref [] in
  let dead = ref false in
  (* steps are separated by ";" tokens *)
  let rec steps () =
    match ts.t with
    | [] -> ()
    | ";" :: r -> ts.t <- r; steps ()
    | _ ->
      let kind = tok ts in
      let ms = (match kind with
        | "S" -> let rid = ti ts in let name = tn ts in let z = tn ts in let x = tn ts in let y = tn ts in let ext = tn ts in
                 Some (MStart (nat_of_int rid, name, z, x, y, ext))
        | "P" -> let rid = ti ts in let name = tn ts in let kind = tn ts in Some (MStartMeta (nat_of_int rid, name, kind))
        | "R" -> let name = tn ts in let tag = tn ts in let o = tn ts in let l = tn ts in
                 (* optional fault kind *)
                 (match ts.t with
                  | f :: r when f <> ";" -> ts.t <- r;
                    let k = (match f with "error" -> FError | "notfound" -> FNotFound | "refresh412" | "refresh416" -> FRefresh
                                        | "canceled" -> FCanceled | "midstream" | "cutoff" -> FMidstream | _ -> FBadBytes) in
                    Some (MFault (name, tag, o, l, k))
                  | _ -> Some (MRelease (name, tag, o, l)))
        | "X" -> let vid = ti ts in let (name, v) = L.nth vers vid in Some (MReplace (name, v))
        | "D" -> Some (MDelete (tn ts))
        | _ -> None) in
      (match ms with
       | None -> dead := true
       | Some m ->
         if not !dead then begin
           (* a release lets every call blocked with these arguments proceed (the harness does the same) *)
           let times = (match m with
             | MRelease (n, e, o, l) | MFault (n, e, o, l, _) ->
               max 1 (L.length (L.filter (fun c -> c = (((n, e), o), l)) (pending_calls (!st).x_sys)))
             | _ -> 1) in
           for _ = 1 to times do
             if not !dead then
               (match macro !st m with
                | Some s' -> st := s'
                | None -> dead := true)
           done
         end);
      if !dead then out := "REJECT" :: !out
      else begin
        let calls = L.sort compare (L.map (fun (((n, e), o), l) -> S.concat "/" [name_str n; tag_str e; string_of_n o; string_of_n l]) (pending_calls (!st).x_sys)) in
        let dones = L.rev (!st).x_sys.dones in
        let fresh = L.filteri (fun i _ -> i >= !printed) dones in
        printed := L.length dones;
        let dn = L.sort compare (L.map (fun ((rid, q), r) -> let (stt, body) = status_body q r in
                    ignore rid;
                    let hs = let b = Buffer.create 32 in L.iter (fun x -> Buffer.add_char b (Char.chr (int_of_n x))) (resp_headers q r); Buffer.contents b in
                    S.concat ":" [string_of_n stt; (if int_of_n stt = 200 then hex_of_bytes body ^ ":" ^ hs else "-")]) fresh) in
        out := ("calls=[" ^ S.concat "," calls ^ "] done=[" ^ S.concat "," dn ^ "]") :: !out
      end;
      steps () in
  steps ();
  S.concat " | " (L.rev !out)

let run_case (line:str) : str =
  let ts = { t = L.filter (fun s -> s <> "") (S.split_on_char ' ' line) } in
  match tok ts with
  | "iter" ->
    let lb = tn ts in let ro = tn ts in let rl = tn ts in let _gz = ti ts in
    let nd = ti ts in
    let table = L.init nd (fun _ ->
      let o = tn ts in let l = tn ts in let ok = ti ts in let raw = bytes_of_hex (tok ts) in
      ((o, l), if ok = 1 then Some raw else None)) in
    let (vis, ok) = iterate_table table lb (nat_of_int 16) ro rl in
    (if ok then "ok " else "err ") ^ ents_str vis
  | "dir_ser" | "dir_ser_gz" -> "ok " ^ hex_of_bytes (serialize_entries (tents ts))
  | "dir_deser" | "dir_deser_gz" ->
    "ok " ^ ents_str (deserialize_entries (bytes_of_hex (tok ts)))
  | "dir_deser_chk" ->
    (match deserialize_res (bytes_of_hex (tok ts)) with
     | Some es -> "ok " ^ ents_str es
     | None -> "err")
  | "zxy2id" -> let z = tn ts in let x = tn ts in let y = tn ts in "ok " ^ string_of_n (zxy_to_id z x y)
  | "id2zxy" -> let ((z, x), y) = id_to_zxy (tn ts) in
    S.concat " " ["ok"; string_of_n z; string_of_n x; string_of_n y]
  | "parent" -> "ok " ^ string_of_n (parent_id (tn ts))
  | "hdr_ser" ->
    let vs = L.init 25 (fun _ -> z_of_string (tok ts)) in
    "ok " ^ hex_of_zbytes (serialize ser_layout (list_header vs))
  | "hdr_deser" ->
    (match deserialize deser_layout (zbytes_of_hex (tok ts)) with
     | Inl h -> "ok " ^ S.concat " " (L.init 25 (fun i -> string_of_z (h (nat_of_int i))))
     | Inr Short -> "crash"
     | Inr _ -> "err")
  | "find" -> let es = tents ts in let id = tn ts in
    (match find_tile es id with
     | None -> "none"
     | Some e -> S.concat " " ["some"; string_of_n e.tid; string_of_n e.off; string_of_n e.len; string_of_n e.run])
  | "tile" ->
    let data = bytes_of_hex (tok ts) in
    let lb = tn ts in let ro = tn ts in let rl = tn ts in let _gz = ti ts in
    let nd = ti ts in
    let table = L.init nd (fun _ ->
      let o = tn ts in let l = tn ts in let ok = ti ts in let raw = bytes_of_hex (tok ts) in
      ((o, l), if ok = 1 then Some raw else None)) in
    let id = tn ts in
    (match tile_response table lb depth_fuel ro rl data id with
     | R200 b -> "200 " ^ hex_of_bytes b
     | R204 -> "204"
     | R500 -> "500")
  | "buildrl_gz" | "optdir_gz" | "cluster_root" | "extract_leaves" -> "ok"
  | "buildrl" ->
    let leaf = tn ts in let es = tents ts in
    let ((root, leaves), n) = build_roots_leaves serialize_entries es leaf in
    Printf.sprintf "ok %d %s %s" (int_of_nat n) (digest_bytes root) (digest_bytes leaves)
  | "optreg" ->
    let target = tn ts in let n = ti ts in let gap = tn ts in let l = tn ts in
    let es = L.init n (fun i -> { tid = N.mul (n_of_int i) gap; off = N.mul (n_of_int i) l; len = l; run = n_of_int 1 }) in
    (match optimize serialize_entries es target (go_sizes (n_of_int (L.length es)) (nat_of_int 80)) with
     | Some ((root, leaves), nl) -> Printf.sprintf "ok %d %s %s" (int_of_nat nl) (digest_bytes root) (digest_bytes leaves)
     | None -> "outoffuel")
  | "optdir" ->
    let target = tn ts in let es = tents ts in
    (match optimize serialize_entries es target (go_sizes (n_of_int (L.length es)) (nat_of_int 80)) with
     | Some ((root, leaves), n) -> Printf.sprintf "ok %d %s %s" (int_of_nat n) (digest_bytes root) (digest_bytes leaves)
     | None -> "outoffuel")
  | "cluster" ->
    let dedup = ti ts = 1 in let _ = ti ts in let _ = ti ts in let _ = ti ts in
    let a = parse_arch ts in
    (match cluster id_bytes dedup a N0 N0 N0 with
     | COk a' -> S.concat " " ["ok"; proj_str a'.a_hdr; ents_str a'.a_entries; hex_of_bytes a'.a_data; hex_of_bytes a'.a_meta]
     | CAlreadyClustered -> "err"
     | CCrash -> "crash")
  | "edit" ->
    let _ = ti ts in let _ = ti ts in let _ = ti ts in
    let hj = if ti ts = 1 then begin
        let tc = bytes_of_hex (tok ts) in let tt = bytes_of_hex (tok ts) in
        let minz = z_of_string (tok ts) in let maxz = z_of_string (tok ts) in
        let nums () = let n = ti ts in L.init n (fun _ -> let m = z_of_string (tok ts) in let k = ti ts in JDec (m, nat_of_int k)) in
        let b = nums () in let c = nums () in
        Some { hj_tcomp = tc; hj_ttype = tt; hj_minz = minz; hj_maxz = maxz; hj_bounds = b; hj_center = c } end else None in
    let mt = tok ts in let metalen = tn ts in
    let bad = S.length mt > 4 && S.sub mt 0 4 = "bad:" in
    let meta = if mt = "-" || bad then None else Some (bytes_of_hex mt, metalen) in
    let a = parse_arch ts in
    if bad then "err" else
    (match edit a hj meta with
     | EOk a' -> S.concat " " ["ok"; S.concat " " (L.init 25 (fun i -> string_of_z (a'.a_hdr (nat_of_int i)))); ents_str a'.a_entries; hex_of_bytes a'.a_data; hex_of_bytes a'.a_meta]
     | EErr -> "err")
  | "e7" -> (* e7 show <n> : to_e7 (of_e7 n);  e7 dec <m> <k> : to_e7 (dec m k) *)
    (match tok ts with
     | "show" -> string_of_z (to_e7 (of_e7 (z_of_string (tok ts))))
     | _ -> let m = z_of_string (tok ts) in let k = ti ts in string_of_z (to_e7 (dec_to_f64 m (nat_of_int k))))
  | "showedit" ->
    let _ = ti ts in let _ = ti ts in let _ = ti ts in
    let a = parse_arch ts in
    (match apply_hjson a.a_hdr (show_json a.a_hdr) with
     | Some h' -> if L.for_all (fun i -> h' (nat_of_int i) = a.a_hdr (nat_of_int i)) (L.init 25 (fun i -> i)) then "same" else "differs"
     | None -> "err")
  | "limit" ->
    let lim = ti ts in let ap = tn ts in let tp = tn ts in
    let old = bytes_of_hex (tok ts) in
    let hdr = bytes_of_hex (tok ts) in let root = bytes_of_hex (tok ts) in let meta = bytes_of_hex (tok ts) in
    let leaves = bytes_of_hex (tok ts) in let tiles = bytes_of_hex (tok ts) in
    let s = run_limited (nat_of_int lim) [(ap, old)] (metadata_edit_ops ap tp hdr root meta leaves tiles) in
    let dg = function None -> "none" | Some b ->
      let buf = Buffer.create 64 in L.iter (fun x -> Buffer.add_char buf (Char.chr (int_of_n x))) b;
      Printf.sprintf "%d:%s" (Buffer.length buf) (Digest.to_hex (Digest.string (Buffer.contents buf))) in
    ignore tp; dg (fs_get ap s) (* the archive path; what is left of FILE.tmp is not part of the property *)
  | "kill" -> "safe"
  | "metasched" -> "ok" (* metadata / TileJSON requests under replacement: judged by the oracle (the executable model has tile requests) *)
  | "held" -> "ok" (* a tile read answered before a replacement and delivered after it: judged by the single-version / timing oracle *)
  | "cancelfirst" -> "ok" (* the first of two requests sharing a fetch is cancelled: the other must be answered as uncached; oracle only *)
  | "corruptleaf" -> "ok" (* an archive with unparsable leaf directories asked repeatedly: the cache must not change the answer; oracle only *)
  | "backend" -> "ok" (* sequential requests around replacements on the real local-directory / HTTP buckets: oracle only *)
  | "micro" -> "ok" (* C08_single_version_tile holds for every interleaving of loop messages; the run checks the implementation alone *)
  | "fill" ->
    let minz = tn ts in let _z = tn ts in let nb = ti ts in
    let boundary = L.init nb (fun _ -> tn ts) in
    let np = ti ts in
    let probes = L.init np (fun _ -> let id = tn ts in let v = ti ts in (id, v = 1)) in
    let inside i = match L.assoc_opt i probes with Some b -> b | None -> false in
    let rs = interior_ranges inside boundary in
    let rel = region_relevant inside boundary minz in
    let buf = Buffer.create 1024 in
    L.iter (fun i -> Buffer.add_string buf (string_of_n i); Buffer.add_char buf ' ') rel;
    S.concat " " ([string_of_int (L.length rs)] @ L.concat_map (fun (a, b) -> [string_of_n a; string_of_n b]) rs
                  @ ["rel"; string_of_int (L.length rel); Digest.to_hex (Digest.string (Buffer.contents buf))])
  | "regionhdr" ->
    let k = ti ts in let n = ti ts in
    let cs = L.init n (fun _ -> let lo = z_of_string (tok ts) in let la = z_of_string (tok ts) in (lo, la)) in
    (* compared per field: the exact value when the model's is within one E7 unit of it (C16_header_bounds / C16_header_center say it
       always is), the value otherwise; the harness canonicalises the implementation's header in the same way *)
    let vs = region_header (nat_of_int k) (L.map fst cs) (L.map snd cs) in
    let scale = L.fold_left (fun a _ -> Z.mul a (z_of_string "10")) (z_of_string "1") (L.init (7 - k) (fun i -> i)) in
    let zmin l = L.fold_left (fun a x -> if Z.ltb x a then x else a) (L.hd l) l in
    let zmax l = L.fold_left (fun a x -> if Z.ltb a x then x else a) (L.hd l) l in
    let los = L.map fst cs and las = L.map snd cs in
    let exact = [Z.mul (zmin los) scale; Z.mul (zmin las) scale; Z.mul (zmax los) scale; Z.mul (zmax las) scale] in
    let one = z_of_string "1" and two = z_of_string "2" in
    let within d b = Z.leb (Z.abs d) b in
    (match vs with
     | [l; b; r; t; cx; cy] ->
       let bd = L.map2 (fun v e -> if within (Z.sub v e) one then string_of_z e else string_of_z v) [l; b; r; t] exact in
       let mid c lo hi = if within (Z.sub (Z.mul two c) (Z.mul (Z.add lo hi) scale)) two then "mid" else string_of_z c in
       S.concat " " (bd @ [mid cx (zmin los) (zmax los); mid cy (zmin las) (zmax las)])
     | _ -> S.concat " " (L.map string_of_z vs))
  | "convert_root" -> "ok" (* C05_root_fits / C05_within_16k hold for every entry list; the run checks the real writer on a list at the boundary *)
  | "convert" ->
    let dedup = ti ts = 1 in
    let nm = ti ts in
    let nums n = L.init n (fun _ -> let a = tok ts in if a = "x" then None else Some (z_of_string a, nat_of_int (ti ts))) in
    let meta = L.init nm (fun _ ->
      match tok ts with
      | "format" -> let v = bytes_of_hex (tok ts) in let j = bytes_of_hex (tok ts) in (MFormat v, j)
      | "compression" -> let v = bytes_of_hex (tok ts) in let j = bytes_of_hex (tok ts) in (MCompression v, j)
      | "bounds" -> let n = ti ts in (MBounds (nums n), [])
      | "center" -> let n = ti ts in let ps = nums n in let z = tok ts in (MCenter (ps, (if z = "x" then None else Some (z_of_string z))), [])
      | "json" -> let n = ti ts in (MJson (L.init n (fun _ -> let k = bytes_of_hex (tok ts) in let v = bytes_of_hex (tok ts) in (k, v))), [])
      | "scheme" -> (MScheme, [])
      | _ -> let k = bytes_of_hex (tok ts) in let v = bytes_of_hex (tok ts) in (MDescr (k, v), [])) in
    let nr = ti ts in
    let rg = L.init nr (fun _ -> let z = tn ts in let x = tn ts in let y = tn ts in let b = bytes_of_hex (tok ts) in let g = tok ts in
                                 ({ m_z = z; m_x = x; m_y = y; m_blob = b }, (b, g))) in
    let gz b = match L.assoc_opt b (L.map snd rg) with Some g when g <> "-" -> bytes_of_hex g | _ -> b in
    let str b = let buf = Buffer.create 64 in L.iter (fun x -> Buffer.add_char buf (Char.chr (int_of_n x))) b; Buffer.contents buf in
    (match convert gz id_bytes dedup meta (L.map fst rg) N0 N0 N0 with
     | CVOk (a, json) ->
       let kv = L.sort (fun (a, _) (b, _) -> compare (str a) (str b)) json in
       S.concat " " (["ok"; proj_str a.a_hdr; ents_str a.a_entries; hex_of_bytes a.a_data; string_of_int (L.length kv)]
                     @ L.concat_map (fun (k, v) -> [hex_of_bytes k; hex_of_bytes v]) kv)
     | CVErr -> "err"
     | CVCrash -> "crash")
  | "multirange" ->
    let base = tn ts in let maxb = tn ts in let n = ti ts in
    let rs = L.init n (fun _ -> let s = tn ts in let l = tn ts in { c_src = s; c_dst = s; c_len = l }) in
    let out = multi_ranges base maxb rs in
    let str b = let buf = Buffer.create 64 in L.iter (fun x -> Buffer.add_char buf (Char.chr (int_of_n x))) b; Buffer.contents buf in
    S.concat " " (string_of_int (L.length out) :: L.concat_map (fun (s, rs) -> [str s; string_of_int (L.length rs)]) out)
  | "sync" ->
    let bskb = tn ts in let dry = ti ts = 1 in let _ = ti ts in let fault = tok ts in
    let ldoff = tn ts in let rmoff = tn ts in let rmlen = tn ts in let rloff = tn ts in let rllen = tn ts in let rdoff = tn ts in
    let esa = tents ts in let esb = tents ts in
    let afile = bytes_of_hex (tok ts) in let bfile = bytes_of_hex (tok ts) in
    if fault <> "none" then "safe" else
    let str b = let buf = Buffer.create 64 in L.iter (fun x -> Buffer.add_char buf (Char.chr (int_of_n x))) b; Buffer.contents buf in
    let dg b = let s = str b in Printf.sprintf "%d:%s" (S.length s) (Digest.to_hex (Digest.string s)) in
    let hash b = n_of_int (int_of_string ("0x" ^ S.sub (Digest.to_hex (Digest.string (str b))) 0 15)) in
    let rec drop k l = if k = 0 then l else (match l with [] -> [] | _ :: r -> drop (k - 1) r) in
    let rdata = drop (int_of_n rdoff) bfile in
    (match makesync_blocks (N.mul (n_of_int 1000) bskb) esb with
     | MSPanic -> "died"
     | MSOk bl ->
       let blocks = sync_entries hash rdata bl in
       let rh = { s_meta_off = rmoff; s_meta_len = rmlen; s_leaf_off = rloff; s_leaf_len = rllen; s_data_off = rdoff } in
       let o = sync hash dry afile ldoff esa bfile rh blocks in
       let after = match o.so_file with None -> afile | Some f -> f in
       let rng a l = Printf.sprintf "GET:bytes=%s-%s" (string_of_n a) (string_of_n (N.sub (N.add a l) (n_of_int 1))) in
       let fixed = if dry then [] else
           ["HEAD:"; "GET:bytes=0-16383"] @ (if int_of_n rmlen > 0 then [rng rmoff rmlen] else []) @ (if int_of_n rllen > 0 then [rng rloff rllen] else []) in
       let multi = if dry then [] else L.map (fun (s, _) -> "GET:bytes=" ^ str s) (multi_ranges rdoff (n_of_int 1048376) o.so_wanted) in
       (* the harness sorts everything after the fifth request *)
       let all = "SYNCFILE" :: fixed @ multi in
       let rec split k l = if k = 0 then ([], l) else (match l with [] -> ([], []) | x :: r -> let (a, b) = split (k - 1) r in (x :: a, b)) in
       let (hd, tl) = split 5 all in
       let all = hd @ L.sort compare tl in
       S.concat " " (["ok"; dg after; "tmp=0"; "blocks"; string_of_int (L.length bl)] @ L.concat_map (fun b -> [string_of_n b.b_start; string_of_n b.b_len]) bl
                     @ ["reqs"; S.concat "|" all]))
  | "note" -> "-"
  | "written" -> "ok" (* C13_verifies / C06_verifies: what Cluster and Convert write passes verify *)
  | "verify" ->
    let _expect = tok ts in let fsize = z_of_string (tok ts) in
    let _ = ti ts in let _ = ti ts in let _ = ti ts in let _ = ti ts in
    let vs = L.init 25 (fun _ -> z_of_string (tok ts)) in
    let es = tents ts in
    (match verify (list_header vs) (Some es) fsize with None -> "ok" | Some _ -> "err")
  | "path" ->
    (match route_of (bytes_of_hex (tok ts)) with
     | RTile t -> S.concat " " ["tile"; hex_of_bytes t.tr_name; string_of_n t.tr_z; string_of_n t.tr_x; string_of_n t.tr_y; hex_of_bytes t.tr_ext]
     | RTileJSON n -> "tilejson " ^ hex_of_bytes n
     | RMetadata n -> "metadata " ^ hex_of_bytes n
     | RRoot -> "root"
     | RNotFound -> "notfound")
  | "key" ->
    let root = [L.map n_of_int [114;111;111;116]; L.map n_of_int [115;101;114;118;101;100]] in
    (match file_for_key root (bytes_of_hex (tok ts)) with
     | None -> "refused"
     | Some segs -> "local " ^ hex_of_bytes (L.concat_map (fun sg -> n_of_int 47 :: sg) segs))
  | "readbig" -> "ok" (* a range far larger than any transport buffer over the HTTP backend: judged by the oracle (exact bytes) *)
  | "adapter" -> "ok" (* the cloud adapter over a stand-in provider driver: judged by the oracle (exact bytes, tags, stale-tag refusal, missing object) *)
  | "serve" -> "confined"
  | "read" ->
    let backend = tok ts in let objt = tok ts in
    let obj = if objt = "missing" then None else Some (bytes_of_hex objt) in
    let off = tn ts in let len = tn ts in
    let c = (match tok ts with "n" -> CNone | "c" -> CCurrent | _ -> CStale) in
    let r = (match backend with
      | "m" -> read_mock obj off len c
      | "f" -> read_file true obj off len c
      | _ -> read_http (origin obj off len c)) in
    (match r with
     | BOk b -> "ok " ^ hex_of_bytes b
     | BRefresh _ -> "refresh" (* the class, not the status code *)
     | BErr _ -> "err")
  | "tags" ->
    let backend = tok ts in let n = ti ts in
    let items = L.init n (fun _ -> let mt = tok ts in let c = tok ts in (mt, c)) in
    (* the key that determines the tag: content (in-memory, HTTP origin with content ETags) or (mtime,size) (local) *)
    let keyof (mt, c) = if backend = "f" then mt ^ ":" ^ string_of_int (S.length c / 2 * (if c = "-" then 0 else 1)) else c in
    let tbl = Hashtbl.create 8 in
    let classes = L.map (fun it -> let k = keyof it in
      (match Hashtbl.find_opt tbl k with Some i -> i | None -> let i = Hashtbl.length tbl in Hashtbl.add tbl k i; i)) items in
    let rec stale = function a :: (b :: _ as r) -> (if a <> b then "1" else "0") :: stale r | _ -> [] in
    "classes " ^ S.concat " " (L.map string_of_int classes) ^ " stale " ^ S.concat " " (stale classes)
  | "fault" ->
    let kind = tok ts in
    let r = (match kind with
      | "refused" | "reset" -> read_http OTransport
      | _ -> read_http (OStatus (tn ts, []))) in
    (match r with
     | BOk b -> "ok " ^ hex_of_bytes b
     | BRefresh _ -> "refresh" (* the class, not the status code *)
     | BErr _ -> "err")
  | "http" ->
    let public = bytes_of_hex (tok ts) in
    let m = (match tok ts with "G" -> MGet | "H" -> MHead | _ -> MOther) in
    let path = bytes_of_hex (tok ts) in
    let c = (match tok ts with "n" -> HNone | "ins" -> HIfNoneMatchSame | "ino" -> HIfNoneMatchOther | "inx" -> HIfNoneMatchStar
                           | "ims" -> HIfMatchSame | _ -> HIfMatchOther) in
    let _ = ti ts in let _ = ti ts in
    let a = parse_arch ts in
    let w = [(L.map n_of_int [97], a)] in
    let r = serve_http w public m path c in
    let tt = a.a_hdr (nat_of_int 15) in
    let unknown_tt = (match tt with Zpos p -> int_of_pos p > 5 | _ -> true) in
    let is_tile = (match route_of path with RTile _ -> true | _ -> false) in
    let st = int_of_n r.rs_status in
    if st = 200 then
      S.concat " " ["200"; (if unknown_tt && is_tile then "?" else opt_str r.rs_ctype); opt_str r.rs_cenc; (if r.rs_etag then "1" else "0");
        (match r.rs_body with
         | BNone -> "-"
         | BBytes b -> hex_of_bytes b
         | BTileJSON t -> S.concat " " (["tj"; hex_of_bytes t.tj_tiles; string_of_z t.tj_minzoom; string_of_z t.tj_maxzoom]
                             @ L.map string_of_z t.tj_bounds @ L.map string_of_z t.tj_center))]
    else if st = 304 then "304 - - " ^ (if r.rs_etag then "1" else "0") ^ " -"
    else Printf.sprintf "%d - - 0 -" st
  | "relevant" ->
    let mz = tn ts in
    let nb = ti ts in let b = L.init nb (fun _ -> let lo = tn ts in let hi = tn ts in (lo, hi)) in
    let es = tents ts in
    let (tiles, leaves) = relevant_entries b mz es in
    "tiles " ^ ents_str tiles ^ " leaves " ^ ents_str leaves
  | "reencode" ->
    let es = tents ts in
    let ((((re, rs), total), addr), cont) = reencode es in
    S.concat " " [ents_str re; "ranges"; string_of_int (L.length rs);
                  S.concat " " (L.concat_map (fun r -> [string_of_n r.r_src; string_of_n r.r_dst; string_of_n r.r_len]) rs)
                  |> (fun x -> x)] |> (fun x -> S.concat " " (L.filter (fun t -> t <> "") (S.split_on_char ' ' x)))
    |> (fun x -> x ^ " " ^ string_of_n total ^ " " ^ string_of_n addr ^ " " ^ string_of_n cont)
  | "merge" | "mergechk" as op ->
    let bits = z_of_string (tok ts) in
    let n = ti ts in
    let rs = L.init n (fun _ -> let a = tn ts in let b = tn ts in let c = tn ts in { r_src = a; r_dst = b; r_len = c }) in
    let ofl = b32_of_bits bits in
    let plan_str ps = S.concat " " (string_of_int (L.length ps) :: L.concat_map (fun p ->
        [string_of_n p.p_src; string_of_n p.p_dst; string_of_n p.p_len; string_of_int (L.length p.p_cds)]
        @ L.concat_map (fun (w, d) -> [string_of_n w; string_of_n d]) p.p_cds) ps) in
    if op = "merge" then plan_str (merge_ranges rs ofl)
    else begin
      let _ = tok ts in (* PLANS *)
      let np = ti ts in
      let ps = L.init np (fun _ -> let a = tn ts in let b = tn ts in let c = tn ts in let k = ti ts in
                  let cds = L.init k (fun _ -> let w = tn ts in let d = tn ts in (w, d)) in
                  { p_src = a; p_dst = b; p_len = c; p_cds = cds }) in
      if plan_ok rs ps (budget_f32 (total_len rs) ofl) then "planok true" else "planok false"
    end
  | "extract" | "extracth" ->
    let minz = z_of_string (tok ts) in let maxz = z_of_string (tok ts) in
    (match ts.t with "none" :: r -> ts.t <- r | _ -> let nb = ti ts in ignore (L.init nb (fun _ -> let a = tn ts in let b = tn ts in (a, b))));
    let _ = tok ts in let _ = ti ts in let _ = tok ts in let _ = ti ts in let _ = ti ts in
    let a = parse_arch ts in
    (match extract_model a minz maxz with
     | XOk a' -> S.concat " " ["ok"; proj_str a'.a_hdr; ents_str a'.a_entries; hex_of_bytes a'.a_data; hex_of_bytes a'.a_meta]
     | XErr -> "err")
  | "srv" -> srv_case ts
  | "malformed" -> "ok"
  | "sched" -> "crash"
  | op -> "unknown-op " ^ op

let () =
  try while true do
    let l = input_line stdin in
    print_endline (try run_case l with Failure m -> "driver-error " ^ m | Not_found -> "driver-error not_found")
  done with End_of_file -> ()
