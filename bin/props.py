"""Per-property configuration of bin/check: what is assumed, how non-trivial cases are counted."""

GZIP = 'compress/gzip is not modelled: directories are compared in their uncompressed wire form (the harness gunzips with the Go standard library)'

PROPS = {
 'C17': {
  'rule': 'random directory trees (depth 0..3, fan-out 1..6, gzip/none, 0..30 tile entries with runs and shared offsets) x '
          'failure sets (none / one directory / several / root or first leaf); a case is non-trivial when the tree has at '
          'least one leaf level or a fetch failure is injected; distinct by case line',
  'trusted_base': [GZIP, 'modelled, not verified: the callbacks passed by verify/cluster/makesync/sync (their use of the returned error is covered by C15/C13/C20)'],
  'assumptions': ['the directory tree is finite and acyclic (the Go recursion has no depth bound; the model uses fuel 16 > any generated depth)'],
  'explanation': 'Theorems C17_complete / C17_fails_loudly hold for every fetch function, i.e. every tree and every set of failing directories; '
                 'the model iterate is compared with IterateEntries on generated trees, and the oracle checks the implementation against the generator ground truth.',
 },
}
