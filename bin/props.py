"""Per-property configuration of bin/check: what is assumed, how non-trivial cases are counted."""

GZIP = 'compress/gzip is not modelled: directories are compared in their uncompressed wire form (the harness gunzips with the Go standard library)'

PROPS = {
 'C17': {
  'rule': 'random directory trees (depth 0..3, fan-out 1..6, gzip/none, 0..30 tile entries with runs and shared offsets) x '
          'failure sets (none / one directory / several / root or first leaf); a case is non-trivial when the tree has at '
          'least one leaf level or a fetch failure is injected; distinct by case line',
  'trusted_base': [GZIP, 'modelled, not verified: the callbacks passed by verify/cluster/makesync/sync (their use of the returned error is covered by C15/C13/C20)'],
  'assumptions': ['the directory tree is finite and acyclic (the Go recursion has no depth bound; the model uses fuel 16 > any generated depth)'],
  'explanation': 'Theorems C17_complete / C17_fails_loudly hold for every fetch function, i.e. every tree and every set of failing directories; '
                 'the model iterate is compared with IterateEntries on generated trees, and the oracle checks the implementation against the generator ground truth.',
 },
 'C03': {
  'rule': 'generated directories (0..1000 entries; multi-byte deltas/offsets up to 2^62, lengths and run lengths up to 2^32-1, '
          'contiguous, shared and scattered offsets) serialized by the implementation (none and gzip) and by the independent spec encoder '
          '(with and without the shorthand), decoded by both; plus unsorted lists and malformed inputs (truncated, corrupted, overlong varints, '
          'counts the data does not back); a gzip directory must be a complete gzip member for a reader that inflates the whole stream. Non-trivial: more than one entry and at least one multi-byte varint, or unsorted/malformed; distinct by case line',
  'trusted_base': [GZIP + '; the gzip round trip is the Section hypothesis decomp (comp b) = Some b of C03_roundtrip',
                   'wire_repr (coq/Model/Directory.v) is the transcription of the v3 specification of the directory encoding'],
  'assumptions': ['gzip.NewWriter/NewReader round-trip (exercised by the harness on every gz case, not verified)'],
  'explanation': 'C03_roundtrip_raw/C03_roundtrip: all entry lists with fields in their Go ranges, any order; C03_encoder_is_spec/C03_decoder_reads_spec: '
                 'interoperability with every spec-conforming encoder/decoder; model compared byte-for-byte / entry-for-entry with SerializeEntries/DeserializeEntries.',
 },
 'C01': {
  'rule': 'every tile and every ID of zooms 0..6 (quick) / 0..10 (thorough); per zoom 7..31 structured coordinates (single bits, 2^k-1, 2^k+1, '
          'complements, alternating bit patterns, corners) and structured IDs (block boundaries, d*4^k and neighbours), random coordinates and IDs, '
          'parent of each; out-of-domain probes (z up to 255, x,y >= 2^z, IDs around and beyond base 32) compared model vs implementation only. '
          'Non-trivial: zoom >= 2; distinct by case line',
  'trusted_base': ['the spec curve hidx/hxy (coq/Model/Hilbert.v) is the textbook recursive Hilbert curve; that it is THE PMTiles v3 numbering is by transcription '
                   '(cross-checked by the harness against the fixed IDs of the v3 specification and the test suite)'],
  'assumptions': [],
  'explanation': 'All six clauses are proved for every z <= 31, x,y < 2^z and every id < base 32 on the Go-level model with explicit wrap-around; '
                 'the model is compared with ZxyToID/IDToZxy/ParentID on every generated case and the implementation is checked against an independent recursive Hilbert index.',
 },
 'C02': {
  'uses_generated': True,
  'rule': 'random headers (every 64-bit field at 0, 2^64-1, single bits, random; int32 fields at 0, -1, min, max, E7 range, random; all enum bytes) '
          'serialized; spec-encoded headers (versions 0..3) decoded; random 127-byte strings with valid magic, single-byte corruptions (magic, version, '
          'clustered byte, any), versions > 3, garbage, short and long inputs. All cases count as non-trivial; distinct by case line',
  'trusted_base': ['Spec.layout (coq/Model/Header.v) is the transcription of the v3 specification header table',
                   'tools/gotables recognises each statement of SerializeHeader/DeserializeHeader by shape and reports any statement it does not understand as a translator gap'],
  'assumptions': [],
  'explanation': 'C02_layout_ser/deser tie the regenerated tables to the specification; round trips, byte layout, length and rejection are proved for all headers / all byte strings; '
                 'the table interpreter is compared byte-for-byte and field-for-field with SerializeHeader/DeserializeHeader including the panic on short input.',
 },
 'C04': {
  'uses_generated': True,
  'rule': '(a) findTile on generated directories (0..12 entries, runs, pointers, shared offsets, ids up to and beyond 2^63) at boundary queries '
          '(first/last id of each run, one before/after, offsets of 2^8/2^16/2^32/2^33 from each entry); (b) whole archives built by the harness '
          '(root-only to three leaf levels, mixed directories, uneven depth, gzip/none, dense and sparse, high zooms) queried through Server.Get and the CLI tile '
          'command at the same boundary ids; (c) directories of 12,000..16,000 entries (more than 64 KiB decoded), root-only under gzip and as leaves under gzip/none, queried at first/last/middle/absent ids; the tile type of the header runs over 0 (unknown/other: any extension is served) and the five known types, the request carrying the matching extension. Non-trivial: directory with > 1 entry / archive with >= 1 leaf level; distinct by case line',
  'trusted_base': [GZIP, 'modelled, not verified: the event loop/caching between handler and bucket (C08/C09), net/http'],
  'assumptions': ['archives are well formed (wftree): directories strictly ascending, runs end before the next entry, leaf ids between the pointer id and the next entry id, at most three leaf levels'],
  'explanation': 'C04_find_tile_spec and C04_walk(_server) hold for every well-formed tree and every id < 2^63; the loop bounds of both Go walks are regenerated from the source; '
                 'server and CLI responses are compared with the model and with the generator ground truth.',
 },
 'C05': {
  'uses_generated': True,
  'rule': 'buildRootsLeaves with leaf sizes 1..40 on lists whose length is an exact multiple / leaves a short tail / is arbitrary; optimizeDirectories on regular and '
          'incompressible lists of 0..20000 (quick) / ..10^6 (thorough) entries at the sizes where the flat-root rule and the leaf-size steps change, budgets 16257/2000/40; '
          'NoCompression results compared byte-exactly (length+md5 of root and leaves) with the model, gzip results checked by the independent reader; badly compressing lists '
          'searched so that the flat gzip root lands within +-100 bytes of the budget. Non-trivial: more entries than one leaf holds; distinct by case line Regular lists (given by parameters) whose pointer tile-ID deltas sit just below a varint size boundary at the first leaf size, one entry more than a whole number of leaves, budgets 120/170 that the first attempt just misses. Two whole-archive extracts of a 21,845-tile source (the output needs leaf directories) are read back through their header offsets by the independent reader (structure, leaves tiling the leaf section, every entry).',
  'trusted_base': [GZIP + '; for the theorems gzip is any serializer with a round trip',
                   'Flocq (float32 leaf-size sequence): the literal sequence of coq/Model/DirBuild.v is proved equal to the Flocq computation (Proofs/DirBuildF32.v, depends on the '
                   'standard-library real-number axioms through Flocq); C05_terminates_all (Proofs/LeafGrowth.v) uses the Flocq specifications of binary32 multiplication, division, comparison and integer '
                   'conversion and assumes nothing about the start value beyond what the division gives; int(leafSize) is modelled as truncation, which is what Go does for finite values in range (all values met before the loop ends are below 2^64)'],
  'assumptions': ['a root directory with a single pointer fits the budget (true for every budget >= 64 bytes; below it the Go loop itself never terminates)',
                  'each serialized leaf is shorter than 2^32 bytes (Go truncates the pointer length to uint32)'],
  'explanation': 'C05_root_fits/C05_within_16k/C05_structure hold for every entry list, serializer and leaf-size sequence; C05_terminates_all: for every entry count up to 2^62 the float32 '
                 'sequence the Go loop walks (start max(float32(n)/3500, 4096), factor the binary32 nearest 1.2; Flocq) reaches, before anything overflows, a size that holds all entries, and a single '
                 'pointer fits; C05_terminates is the same for the literal sequence below 14,336,000 entries; the loop constants, the budgets and the 16384-byte first fetch are regenerated from '
                 'directory.go/convert.go/extract.go/server.go. The executable model compared with optimizeDirectories runs the float32 sequence (go_sizes).',
  'allowed_axioms': ['sig_not_dec', 'sig_forall_dec', 'functional_extensionality_dep', 'classic'],
 },
 'C13': {
  'rule': 'valid unclustered archives written by the harness (1..20 entries, run lengths, shared offsets, a pool of few distinct contents so that equal contents sit at '
          'different offsets, scrambled data order, runs crossing a zoom boundary, all tile types/compressions, zero and non-zero centers, bounds whose sum overflows int32, '
          'root-only to two leaf levels, gzip/none) through the real Cluster with dedup on/off; output read back by the independent reader. Non-trivial: > 2 entries; distinct by case line',
  'trusted_base': [GZIP, 'fnv128a modelled as an injective hash (the executable instance uses the content itself); the theorems carry the no-collision hypothesis',
                   'encoding/json: metadata compared as canonical JSON'],
  'assumptions': ['input archives are well formed (awf): ascending disjoint runs, every entry non-empty and inside the tile data'],
  'explanation': 'C13_tile_map_preserved and C13_verifies hold for every well-formed archive, dedup on and off; the cluster model is compared field-for-field, entry-for-entry and byte-for-byte '
                 '(tile data) with the real Cluster, and the oracle re-checks content map, declarations, metadata, structure and pmtiles.Verify on the output.',
 },
 'C15': {
  'rule': 'valid archives written by the harness (2..13 entries, one in six a single entry addressing one tile, one in six fully deduplicated to one content; runs, shared offsets, clustered and unordered layouts, 0..2 leaf levels, gzip/none, plain and 16 KiB-padded layouts) '
          'and every single-field / single-entry corruption of each: addressed/entries/contents +-1 and set to 0, min/max/center zoom, degenerate bounds, data/metadata length +-1, each section offset set to 0, '
          'file truncated/extended, clustered flag on an unordered archive, an entry moved outside the tile data, an entry shifted backwards to an unused offset. One written case in seven holds a 72,000-byte tile next to tiny ones. Archives written by the real Cluster and Convert (dedup on/off) from consistent inputs whose tiles sit around a zoom boundary with equal contents, so that runs cross it, also at the very end, must verify. All cases non-trivial; distinct by case line',
  'trusted_base': [GZIP, 'roaring64 bitmap modelled as a duplicate-free list of offsets', 'the local-file bucket and os.Stat (file size)'],
  'assumptions': ['directories are readable (the harness writes them); archives have at least one entry'],
  'explanation': 'The verify model is compared with pmtiles.Verify on every valid archive and every corruption; the oracle knows by construction which files are consistent.',
 },
 'C11': {
  'uses_generated': True,
  'rule': 'request paths over the grammar {names, ".", "..", empty segments, %2e, %2f, %5c, double escapes, names with every punctuation class, non-ASCII and invalid UTF-8, '
          'sibling directories sharing the served name as prefix} x {tile, metadata, TileJSON suffixes, malformed suffixes, overflowing numbers} compared with the three Go regexps; '
          'keys with dot/empty segments compared with filepath.IsLocal/Join; hostile requests against a served directory with marker archives in the parent, in a prefix-sharing sibling '
          'and in another directory, through Server.Get, ServeHTTP and raw bytes to a real listener mounted on a ServeMux; a quarter of these against a second served directory whose name begins with # and contains ? and a percent escape (characters that mean something in a URL). All cases non-trivial; distinct by case line',
  'trusted_base': ['Go regexp, strconv, path/filepath (their lexical semantics is transcribed in Model/PathParse.v and Model/PathSafe.v and exercised against the real functions)',
                   'net/http request parsing, ServeMux cleaning and percent-decoding (only observed)', 'symbolic links are out of scope (lexical confinement)'],
  'assumptions': ['the served root is an absolute clean path'],
  'explanation': 'C11_key_is_name and C11_served_confined hold for every byte string; the regexps are regenerated from server.go and must equal the strings the parsers were written from; '
                 'the oracle looks for markers of outside files in every response.',
 },
 'C18': {
  'rule': 'every (offset, length) pair on objects of 0/1/5/8 bytes (thorough: up to 300) incl. crossing and beyond the end and zero length, x {unconditioned, current tag, stale tag}, '
          'on the in-memory, local-directory (through OpenBucket file://) and HTTP (through OpenBucket http:// against an RFC 7232/7233 origin) backends; missing objects; replacement '
          'histories (rewrite and rename-over, same and different sizes, mtimes differing by 1 ns / within one second / by seconds / backwards, repeated contents) observed as tag equality classes '
          'and stale-read refusals; HTTP faults (connection refused, reset, 204/301/403/404/412/416/500/503); the cloud adapter (BucketAdapter) through a real gocloud blob.Bucket over a stand-in provider driver in an Azure and an S3 flavour (If-Match honoured, provider error types wrapped by gocloud as in production): exact bytes, tag change on replacement, stale-tag refusal, missing object; ranges of 35,000..300,000 bytes over the HTTP backend from an origin that delivers the second half of the body after the call has returned. Non-trivial: non-empty object or fault; distinct by case line',
  'trusted_base': ['the OS file API (ReadAt, Stat, rename) and that the harness can set mtimes with Chtimes; the loopback origin is net/http.ServeContent',
                   'tags are compared as equality classes: xxhash64 no-collision on the (mtime,size) pairs / contents of one history',
                   'the cloud adapter (gocloud) is modelled only through its status classification'],
  'assumptions': ['HTTP origins implement Range and If-Match as RFC 7232/7233 say', 'for the local backend a replacement changes mtime or size'],
  'explanation': 'The read models of the three backends are compared with the real backends (opened through OpenBucket) on every case; the theorems state the property clauses for every object, offset and length.',
 },
 'C12': {
  'uses_generated': True,
  'rule': 'archives over all tile types (incl. unknown 0/6/255) x tile compressions (incl. unknown) x zoom ranges, shared contents, metadata with unicode/nesting/HTML characters or {}, '
          'negative bounds, with and without public URL; requests: stored and absent tiles, zoom out of range, wrong extension, unknown archive, metadata, TileJSON, "/", unknown paths; '
          'methods GET/HEAD/POST/DELETE/OPTIONS/PUT; conditional headers If-None-Match (same/other/*) and If-Match (same/other). ETags compared across all responses of the run. '
          'TileJSON responses are judged independently of the model: tiles template = public URL (with scheme) / name / {z}/{x}/{y}.ext, zooms, bounds and center equal to those of the header. Every 200 tile response is also judged against the mapping tile type -> Content-Type, tile compression -> Content-Encoding written down in the harness (internal compression gzip/none varies independently). All cases non-trivial; distinct by case line A third of the archives carry metadata that is not a fixed point of JSON re-encoding (unsorted keys, whitespace, HTML characters, integers beyond 2^53, exponent notation); the metadata endpoint must return the stored bytes.',
  'trusted_base': ['net/http.ServeContent (conditional evaluation transcribed in Model/Http.v), httptest.ResponseRecorder', 'encoding/json and Go float formatting: TileJSON numbers are compared after rounding to E7',
                   'xxhash64: "different bodies => different ETag" is checked on the bodies of one run (no-collision assumption)',
                   'content type of archives with an UNKNOWN tile type is sniffed by net/http and not compared'],
  'assumptions': ['a quiescent, single-version bucket (versions and faults are C08/C10)'],
  'explanation': 'One lemma per clause of the mapping over serve_http; the content-type / encoding / extension tables are regenerated from the source and must equal the specification tables; '
                 'the model is compared with ServeHTTP through a recorder on every case.',
 },
 'C09': {
  'uses_generated': True,
  'rule': 'schedules over 1..3 archives (root-only to two leaf levels, mixed directories, gzip/none) and 2..7 concurrent tile requests (stored / absent tiles, wrong extension, missing archive) with a random '
          'release order of the blocked bucket calls; after every macro step the set of blocked calls and the completed requests of the real server are compared with the model. '
          'Four runs cancel the context of the first of two requests that share a blocked header or leaf fetch (the scheduling bucket honours the call context, as the HTTP and cloud backends do): the other request must be answered as uncached. Four runs serve an archive whose leaf directories do not parse and ask the same tile three times (the warm answers must equal the cold one). Half as many schedules again start from a warm cache, replace the archive (1..3 times) and then run 2..5 concurrent requests, whose refused stale reads all purge and refetch; the coalescing oracle (no two identical header/directory fetches outstanding at once) judges every step. Non-trivial: more than two requests; distinct by case line',
  'trusted_base': ['the Go scheduler, channel semantics and real time are abstracted to an interleaving LTS at the granularity of loop messages and bucket calls (coq/Model/Server.v)',
                   'the scheduling bucket of the harness stands for the bucket contract of the property (tag per version, conditional reads honoured)',
                   'quiescence of the real server is detected from goroutine states (runtime.Stack)', GZIP],
  'assumptions': ['cache size 64 MB in the schedules (no eviction occurs); eviction is covered by the theorems as arbitrary removal and by the size-bound lemmas'],
  'explanation': 'C09 theorems are instances of the invariant of the server LTS (any interleaving, any eviction); the executable stepper is proved to follow the LTS and is compared with the real server step by step.',
 },
 'C08': {
  'uses_generated': True,
  'rule': 'schedules with 1..2 archives, warm or cold cache, 2..6 tile requests and 0..3 replacements (new versions with different sizes, layouts, leaf structures; occasional deletion) placed before or between '
          'the releases of blocked bucket calls; systematic schedules: one tile request, every placement of up to two replacements among its bucket calls x cold/warm cache x with/without a replacement completed beforehand, '
          'versions sharing tile ids and tile type but not layout; micro schedules: the event loop held inside the trace sink at one request\'s header lookup while another request\'s purging retry queues up '
          '(oracle only, the executable model is macro-step). About one request in seven is a metadata or TileJSON request; every 200 is observed with its Content-Type/Content-Encoding; sequential request/replace sequences on the real local-directory and HTTP buckets (their own version tags; on the local directory the versions of every other run have equal file sizes, those of the remaining runs shrink so that a read at the offsets of an older version runs past the end of the new file - the tile stored last is asked first after the replacement - and successive versions are published within the same second with different sub-second modification times); six runs in which a tile read is answered by the bucket before a replacement and delivered after it while a second request for the same tile begins and ends in between (two-phase release of the scheduling bucket); calls blocked with identical arguments are released together. Non-trivial: at least one replacement; distinct by case line',
  'trusted_base': ['the Go scheduler, channel semantics and real time are abstracted to an interleaving LTS at the granularity of loop messages and bucket calls (coq/Model/Server.v)',
                   'the scheduling bucket of the harness stands for the bucket contract of the property (tag per version, conditional reads honoured)',
                   'quiescence of the real server is detected from goroutine states (runtime.Stack)', GZIP],
  'assumptions': ['tags are unique per version of an archive'],
  'explanation': 'C08_single_version is the invariant of the LTS for every reachable state; the oracle checks every response of the real server against single versions current during the request.',
 },
 'C10': {
  'uses_generated': True,
  'rule': 'fault schedules: each fault kind (generic error, not found, 412, 416, cancelled, mid-stream read error, half the range then io.ErrUnexpectedEOF as a dropped connection gives, short / empty / garbage bytes) at each of the first seven bucket-call positions of a script of 1..3 requests, '
          'cache sizes 0 / 1 / 64 MB, followed by recovery requests for the same and another archive; malformed objects: truncation at every length class, header-field corruption incl. values near 2^64, random bytes, '
          'corrupted magic, flipped bytes in directories, cuts inside the root directory. Every schedule runs in a child process: a crash or hang of the server is an observable outcome. '
          'Fault schedules are compared step by step with the model; malformed objects are judged by the oracle only. All cases non-trivial; distinct by case line Well-formed headers over root directories announcing 2^36..2^64-1 entries in a few bytes (plain and gzip-wrapped).',
  'trusted_base': ['the Go scheduler, channel semantics and real time are abstracted to an interleaving LTS (coq/Model/Server.v); "completes in bounded time" is checked as: no crash, no hang within the watchdog, and no request waiting while nothing is pending',
                   'byte-level outcomes of a fetch (short, empty, garbage, unparsable) are abstracted to "the fetch fails"; that the real parser does so is what the child-process runs check', GZIP],
  'assumptions': ['wrong bytes returned as a successful tile read cannot be detected by the server and are not injected'],
  'explanation': 'C10_no_lie / C10_failures_not_cached are instances of the LTS invariant over all fault placements and interleavings; progress and crash-freedom are decided on the real server in child processes.',
 },
 'C07': {
  'rule': 'RelevantEntries on directories with runs, leaf pointers and interval bitmaps (incl. intervals starting/ending exactly on entry boundaries), reencodeEntries on lists with shared contents, '
          'MergeRanges on range lists with pairwise distinct gaps (monotone and with backward jumps) x overfetch in {0,0.05,0.1,0.125,0.2,0.33,1,2.5,10}; end to end: clustered sources (runs crossing zoom '
          'boundaries, shared contents, root-only / one leaf level, gzip/none internals) x zoom ranges x overfetch x 1..4 threads x file/HTTP source, output compared with the model and re-run under four '
          'other configurations for byte identity, two of them against an origin that completes concurrent downloads out of order (headers and half a body at once, the rest after another download finished); half the end-to-end sources reuse low-zoom contents higher up and leave the low zooms out, so that many far-apart ranges are needed. Non-trivial: more than two entries/ranges or end to end; distinct by case line reencodeEntries additionally on heavily shared pooled contents thinned as a region does, with an oracle that copying the listed ranges puts the source bytes of every tile where its new entry points.',
  'trusted_base': [GZIP, 'roaring64 bitmap modelled as a list of half-open intervals', 'Flocq (float32 budget): theorems about budget_f32 depend on the standard-library real-number axioms through Flocq',
                   'errgroup/mutex work distribution abstracted to "plans executed in any order" (C07_schedule_independent)'],
  'assumptions': ['sources are clustered and well formed, with at most one leaf level (the Go code panics beyond)'],
  'explanation': 'see Properties/C07.v',
  'allowed_axioms': ['sig_not_dec', 'sig_forall_dec', 'functional_extensionality_dep', 'classic'],
 },
 'C19': {
  'rule': 'MergeRanges plans (any tie-breaking) on range lists with tied and distinct gaps, monotone and with backward jumps, lengths up to 2^24+2^20, overfetch from the fixed set and random, checked by the proved '
          'plan checker plan_ok and by the transfer oracle; end to end over HTTP: the Range requests the loopback origin received (inside their sections, at most (1+overfetch) x needed, exactly needed at 0, nothing twice), half of the sources with scattered ranges under overfetch 0.2..2.5 and a leaf level, so that which gaps are bridged depends on the budget to the byte. '
          'Non-trivial: more than two ranges or end to end; distinct by case line',
  'trusted_base': ['Flocq (float32 budget) as for C07', GZIP, 'the loopback origin logs every Range header it receives'],
  'assumptions': [],
  'explanation': 'see Properties/C19.v; two known findings (D15 double request with non-monotone source offsets, D16 float32 budget rounding) are listed in known_findings.json',
  'allowed_axioms': ['sig_not_dec', 'sig_forall_dec', 'functional_extensionality_dep', 'classic'],
 },
 'C14': {
  'uses_generated': True,
  'rule': 'archives written by the harness (1..12 entries, runs, shared contents, root-only to two leaf levels, gzip/none internals, sections back to back or (35% of edit cases) separated by padding as the spec allows, every tile type, E7 header coordinates over the whole int32 range incl. '
          'the boundaries and the values a truncating conversion gets wrong) through the real Edit with header JSON (all known and several unknown type/compression names, zooms -4..549, coordinates as '
          'decimal literals with 0..12 decimals over the whole E7 range, wrong-length bounds/center), new metadata of varying length (keys out of order, HTML characters, nested values, non-objects) or both; '
          'show --header-json fed back to edit; a metadata edit (every other one SHRINKING the section) under every output-size limit 0..size+2 (RLIMIT_FSIZE in child processes) and SIGKILL at sampled instants of both edit paths. '
          'All cases non-trivial; distinct by case line',
  'trusted_base': [GZIP, 'Flocq binary64 (Bdiv, Bmult, binary_normalize) as the meaning of Go float64 arithmetic; the theorems about it depend on the standard-library real-number axioms through Flocq',
                   'strconv: a decimal literal m/10^k (|m| < 2^53, k <= 22) parses to the correctly rounded quotient, and the text json.Marshal prints for a float64 parses back to the same float64',
                   'encoding/json: metadata compared as canonical JSON; numbers beyond float64 precision are not distinguished',
                   'file system: os.Rename is atomic, the 127-byte pwrite at offset 0 of the header-only path is atomic, a write interrupted or refused (EFBIG/ENOSPC) leaves a prefix; no fsync/power-loss reordering is modelled',
                   'tools/gotables statement tables of Edit and headerToJson (assignments, section readers, ordered output calls with error checks) must equal the ones the model was written against'],
  'assumptions': ['header JSON coordinates lie in the int32 E7 range and the center zoom in 0..255 (Go leaves out-of-range float-to-integer conversion implementation-defined)',
                  'show/edit identity is claimed for headers whose tile type is 0..5 and tile compression 1..4 (names exist) and whose clustered byte is 0/1',
                  'the output-size limit applies to the temporary file of the metadata path; limits below the size of the existing archive on the in-place header write are outside the fault model'],
  'explanation': 'see Properties/C14.v: what edit may change (C14_header_edit, C14_metadata_edit, C14_content_preserved), show/edit identity down to the header bytes, exact storage of seven-decimal '
                 'coordinates and the int32 round trip proved on the Flocq binary64 model (Proofs/E7.v, Proofs/E7Glue.v), the truncating conversion refuted by witness, and crash safety of both output paths '
                 'for every crash point incl. every output-size limit.',
  'allowed_axioms': ['sig_not_dec', 'sig_forall_dec', 'functional_extensionality_dep', 'classic'],
 },
 'C20': {
  'uses_generated': True,
  'rule': 'pairs (A,B) of clustered archives written by the harness (1..40 tiles of 40..400 bytes, or 1..2 tiles of 1..4 bytes; shared contents as back references, run lengths; root-only or one leaf level, gzip/none) '
          'where B is A with the first/last/a middle tile changed, tiles inserted at the front/end/middle, removed at the front/end/middle, all changed, many changed, or identical; block sizes 0/1/2/5 kB; '
          'GOMAXPROCS 1/2/4/16; dry run or not; origin faults (no .sync file, Range ignored, connection cut inside a multi-range body). Each pair runs makesync and sync in a child process against a loopback origin that logs '
          'every Range header. makeMultiRanges on range lists with header budgets 1..1048376 through the verif export. All cases non-trivial; distinct by case line Every kind of change meets every block size; a third of the pairs have tiles of one block each, so that an insertion or removal moves whole blocks.',
  'trusted_base': ['xxhash64 modelled as any hash function; the driver instantiates it with 60 bits of MD5; the convergence theorem carries the no-collision hypothesis for the compared byte strings',
                   'net/http client and the loopback origin (http.ServeContent: single-range 206, multipart/byteranges in request order); mime/multipart',
                   'file system: writes go to FILE.tmp, os.Rename is atomic; no fsync/power-loss reordering is modelled',
                   'goroutine scheduling of the hash workers and download threads is not controlled: the model is the sequential diff, the theorems are order independent (membership), runs vary GOMAXPROCS',
                   'tools/gotables table of the file-output calls of Sync must equal the one the model was written against'],
  'assumptions': ['remote archives are chained (root at 127, metadata, leaves, tile data last) with header and root inside the first 16384 bytes',
                  'both archives are clustered: every entry is new content at the end of the data or a back reference'],
  'explanation': 'see Properties/C20.v: blocks tile the tile data (C20_blocks_partition), sync of any local archive yields the remote file (C20_converges), equal archives want nothing (C20_equal_no_download), '
                 'dry runs write nothing, batching keeps the ranges, every crash point leaves the old archive or the complete new file.',
 },
 'C06': {
  'rule': 'MBTiles databases written with the sqlite library the repo uses: formats pbf/png/jpg/webp/avif/unknown/absent (and a second format row), 1..25 tile rows at zooms 0..6 and 20..30 incl. the edges of the grid, '
          'duplicate contents, empty blobs, already-gzipped and half-magic blobs, rows and metadata rows in random insertion order, all blobs empty, no rows; metadata rows bounds/center as decimal literals '
          'with 0..8 decimals (proper, inverted and unparsable boxes; center zoom inside the tiles\' zoom range, out of int8 range or missing), json (vector_layers, tilestats, overriding name), compression, scheme, '
          'descriptive rows with HTML and non-ASCII characters; dedup on/off. Non-trivial: more than one row; distinct by case line Databases whose single-level gzip directory lands between the root budget and the first fetch (convert_root, oracle only).',
  'trusted_base': [GZIP + ' (the model takes the gzip stream of each raw pbf blob from a table of the real outputs; the oracle gunzips them back)', 'sqlite (zombiezen) and the MBTiles schema', 'roaring64 set modelled as a sorted duplicate-free list',
                   'fnv128a modelled as an injective hash (no-collision hypothesis in the theorems; identity in the driver)', 'encoding/json: metadata compared member by member as canonical JSON',
                   'Flocq binary64 for int32(f*1e7) of bounds and center (truncation toward zero, as the Go code does)'],
  'assumptions': ['tile rows are valid (z <= 31, column and row below 2^z) and unique per (z, column, row)',
                  'a declared center zoom lies within the zoom range of the tiles (the property\'s own side condition); bounds agree with the source to within one E7 unit because Convert truncates'],
  'explanation': 'see Properties/C06.v: C06_tile_map (every non-empty row at its flipped id, encoded; nothing else addressed), C06_dedup_irrelevant, C06_verifies (counts, clustered layout, zoom range), C06_header, C06_flip; '
                 'the convert model is compared with the real Convert on header projection, entries, tile data and metadata members, and the oracle re-derives the expected tile map from the rows.',
  'allowed_axioms': ['sig_not_dec', 'sig_forall_dec', 'functional_extensionality_dep', 'classic'],
 },
 'C16': {
  'rule': 'regions: boxes (random and on tile edges of zooms 2..5 / the equator), convex and concave polygons, polygons with a hole, disjoint and overlapping multipolygons, long oblique quadrilaterals, as bbox text, '
          'Polygon/MultiPolygon geometry, Feature and FeatureCollection, coordinates with four decimals; zoom 2..7 x minimum zoom 0..zoom through the exported region -> tile-ID-set computation; '
          'end to end through Extract on a full source pyramid z0..5 (deep enough for tiles all of whose descendants are interior); in half of the runs the source declares regional bounds inside the bounding box of the region. Oracles with the harness\'s own Web-Mercator geometry over every tile of every zoom in range. All cases non-trivial; distinct by case line',
  'trusted_base': ['orb (tilecover, planar point-in-polygon, Mercator projection, GeoJSON parsing): NOT verified; it enters the theorems as the boundary list and the inside predicate with the hypothesis H_cover; '
                   'the harness checks both against its own geometry (edge sampling at 1/16 tile, even-odd ray casting, point-segment distances) on every case',
                   'roaring64 bitmaps modelled as ascending duplicate-free lists', 'Flocq binary64 for the header bounds/centre (truncating int32(f*1e7) of the bounding box and of its float64 midpoint)'],
  'assumptions': ['regions are simple and lie inside the Web-Mercator world (|lat| <= 84, |lon| < 180)',
                  'region edges are straight in Web-Mercator (as orb rasterises and tests them), not geodesics or straight in lon/lat',
                  'PARTIAL CLAIM: the metric clauses of the property (more than one finest-zoom tile inside / more than one tile width outside) are decided by the oracle on every case, not by a theorem; '
                  'the theorems cover the fill, the propagation, parent closure and nearness in the ancestor sense'],
  'explanation': 'see Properties/C16.v (C16_fill_exact with C16_separation from C01_adjacent, C16_relevant_spec, C16_cover_finest, C16_near, C16_parents; C16_header_bounds and C16_header_center: bounds within one E7 unit, centre within one unit of the exact midpoint, over the Flocq binary64 model of the conversions); the model recomputes interior ranges and relevance set from the '
                 'real boundary cover and the harness\'s own point-in-polygon answers and must agree with the real code; header bounds/centre are compared with the Flocq model.',
  'allowed_axioms': ['sig_not_dec', 'sig_forall_dec', 'functional_extensionality_dep', 'classic'],
 },
}
